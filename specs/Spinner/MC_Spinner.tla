----------------------------- MODULE MC_Spinner -----------------------------
(* Model-checking harness for Spinner.
   BSpec  - every interleaving of M, S and the clock for every body of the configuration (no history): the
            P-invariants on every reachable state, Terminates under weak fairness.
   HSpec  - the same steps with the schedule so far as a history variable and a pre-emption counter: every
            schedule with at most MaxPre pre-emptions is one path; the complete ones are emitted
            ([cfg, steps, outcome]) and enforced on the real ProgressIndicator.auto() by the baton scheduler.
            A pre-emption is a switch away from a thread (M or S) that could have continued.
   The clock advances (Tick) only while S sleeps and has not reached its deadline: the clock is read by S alone
   (after start()), right after a sleep, so a tick at any other moment commutes with the steps around it.
   At most MaxTicks ticks are taken before M has set the stop event; afterwards the clock runs freely, which
   lets S wake up and see the event.                                                                        *)
EXTENDS Spinner, Json, TLC

CONSTANTS Bodies,      \* set of with-bodies
          Modes,       \* kinds of output: "ansi", "plain", "quiet"
          ValueChoices,\* indicator value lists
          Ends,        \* end messages of the (first) run
          Seconds,     \* what follows the run on the same indicator object: <<>> (nothing) or <<[start, end, body]>>
          TickMs,      \* set of clock advances
          MaxTicks, MaxPre

VARIABLES nticks, hist, npre, prev, cfg0
mvars == <<vars, nticks, hist, npre, prev, cfg0>>

A == <<"A", "A">>
B == <<"B">>
C == <<"C", "C", "C">>
E == <<"E", "N", "D">>
Set(m) == [k |-> "set", m |-> m]
Work == [k |-> "work", m |-> <<>>]
Raise == [k |-> "raise", m |-> <<>>]
Interrupt == [k |-> "interrupt", m |-> <<>>]
\* body families
Empty == <<>>
BodiesQ == {<<>>, <<Set(B)>>, <<Set(Empty), Set(B)>>, <<Raise>>, <<Set(B), Raise>>, <<Set(B), Set(C)>>, <<Work, Set(B)>>, <<Interrupt>>, <<Set(B), Interrupt>>}
BodiesT == BodiesQ \cup {<<Set(B), Set(C), Raise>>, <<Set(B), Work, Set(C)>>, <<Work, Raise>>, <<Set(B), Set(A), Set(B)>>}
BodiesOne == {<<Set(B)>>}
BodiesH == {<<Set(B)>>, <<Set(B), Raise>>, <<>>, <<Raise>>, <<Interrupt>>}
BodiesH2 == {<<Set(B), Set(C)>>, <<Work, Set(B)>>, <<Set(B), Raise>>}
\* every body of up to 3 items, and every body of up to 2 items followed by a raise
Items == {Set(B), Set(C), Work}
SeqsTo(n) == UNION {[1..k -> Items] : k \in 0..n}
BodiesAll == SeqsTo(3) \cup {Append(s, Raise) : s \in SeqsTo(2)} \cup {Append(s, Interrupt) : s \in SeqsTo(2)}
Ticks1 == {100}
Ticks2 == {50, 100}

AllModes == {"ansi", "plain", "quiet"}
OnlyAnsi == {"ansi"}
NotAnsi == {"plain", "quiet"}
\* a second run: begins with the message the first one ended with (E) or with another one, quick bodies
BodiesTwice == {<<>>, <<Set(B)>>}
AnsiPlain == {"ansi", "plain"}
NoSecond == {<<>>}
SecondsQ == {<<>>, <<[start |-> E, end |-> E, body |-> <<>>]>>, <<[start |-> A, end |-> E, body |-> <<Set(B)>>]>>,
             <<[start |-> E, end |-> A, body |-> <<Raise>>]>>}
SecondsH == {<<[start |-> E, end |-> E, body |-> <<>>]>>, <<[start |-> A, end |-> E, body |-> <<>>]>>}
DefaultValues == {Values}
TwoValueLists == {Values, <<"1", "2">>}
Cfg2(md, x, vs) == [mode |-> md, values |-> vs, w |-> 30, interval |-> 100, start |-> x.start, end |-> x.end, body |-> x.body,
                next |-> <<>>, prev |-> <<A, B, C, E, <<>>>>]
OneEnd == {E}
TwoEnds == {E, <<>>}
Cfg(b, md, nx, vs, en) == [mode |-> md, values |-> vs, w |-> 30, interval |-> 100, start |-> A, end |-> en, body |-> b,
                   next |-> IF nx = <<>> THEN <<>> ELSE <<Cfg2(md, nx[1], vs)>>, prev |-> <<>>]

MInit == /\ \E b \in Bodies, md \in Modes, nx \in Seconds, vs \in ValueChoices, en \in Ends :
              InitWith(Cfg(b, md, nx, vs, en)) /\ cfg0 = Cfg(b, md, nx, vs, en)
         /\ nticks = 0 /\ hist = <<>> /\ npre = 0 /\ prev = ""

EnT == pcS = "sleep" /\ clock < sdead /\ (nticks < MaxTicks \/ stop)
TickStep == EnT /\ \E d \in TickMs : Tick(d) /\ nticks' = nticks + 1

\* ---- plain exploration
RestartStep == Restart /\ nticks' = 0
BNext == \/ MStep /\ UNCHANGED nticks
         \/ SStep /\ UNCHANGED nticks
         \/ TickStep
         \/ RestartStep
BSpec == MInit /\ [][BNext /\ UNCHANGED <<hist, npre, prev, cfg0>>]_mvars
               /\ WF_mvars(MStep /\ UNCHANGED <<nticks, hist, npre, prev, cfg0>>)
               /\ WF_mvars(SStep /\ UNCHANGED <<nticks, hist, npre, prev, cfg0>>)
               /\ WF_mvars(TickStep /\ UNCHANGED <<hist, npre, prev, cfg0>>)
               /\ WF_mvars(RestartStep /\ UNCHANGED <<hist, npre, prev, cfg0>>)
BView == <<cfg, pcM, mph, bi, mframe, pcS, sframe, sdead, message, current, update, stop, lock, clock, term,
           outcome, nticks>>
\* a state without successor is a finished run
NoDeadlock == (~ENABLED BNext) => (pcM = "done" /\ pcS = "done")

\* ---- schedules with a bounded number of pre-emptions
Pre(th) == IF prev # th /\ ((prev = "M" /\ EnM) \/ (prev = "S" /\ EnS)) THEN 1 ELSE 0
H(th, Step) == /\ npre + Pre(th) <= MaxPre
               /\ Step /\ UNCHANGED cfg0
               /\ npre' = npre + Pre(th) /\ prev' = th
               /\ hist' = Append(hist, [th |-> last'.th, op |-> last'.op, ops |-> last'.ops, at |-> last'.at,
                                        dt |-> clock' - clock])
HNext == \/ H("M", MStep) /\ UNCHANGED nticks
         \/ H("S", SStep) /\ UNCHANGED nticks
         \/ H("T", TickStep)
         \/ H("", RestartStep)
HSpec == MInit /\ [][HNext]_mvars

Finished == pcM = "done" /\ pcS = "done" /\ (cfg.next = <<>> \/ outcome # "normal")
Emit == Finished => PrintT(ToJson([cfg |-> cfg0, steps |-> hist, outcome |-> outcome]))
\* random long schedules (-simulate): no bound on pre-emptions
SimNext == \/ (MStep /\ UNCHANGED nticks)
           \/ (SStep /\ UNCHANGED nticks)
           \/ TickStep
           \/ RestartStep
SNext == /\ SimNext
         /\ hist' = Append(hist, [th |-> last'.th, op |-> last'.op, ops |-> last'.ops, at |-> last'.at, dt |-> clock' - clock])
         /\ UNCHANGED <<npre, prev, cfg0>>
SSpec == MInit /\ [][SNext]_mvars
=============================================================================
