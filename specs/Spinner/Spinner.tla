------------------------------ MODULE Spinner ------------------------------
(* clikit.ui.components.ProgressIndicator.auto()  (property C19)  on the shared Terminal model.

   Two processes, M (the caller's thread inside `with indicator.auto(start, end): body`) and S (the spinner
   thread running ProgressIndicator._spin), plus the virtual clock (Tick).  Every action is one *step* of the
   baton scheduler (harness/engine/baton.py): the thread performs the operation it was waiting at and runs on
   to its next yield point.  Yield points: each stream write, sleep, Thread.start / join, Event.set (before and after) / is_set,
   Lock.acquire, and the explicit "work" point of the body.  Reading the clock and releasing the lock are not
   yield points (they are atomic with the step they belong to).  The program counters name the operation a
   thread is *about to* perform.

   cfg = [mode     "ansi" (decorated output: the indicator redraws its line) | "plain" (not decorated: every frame is a
                   line of its own, ' m', and advance() draws nothing) | "quiet" (nothing reaches the stream; the
                   spinner thread runs all the same),
          values   the indicator values (constructor argument; default - % | /),
          w        terminal width,
          interval the indicator's redraw interval (ms),
          start, end   the two messages of auto()                 (cells = 1-character strings, no blanks),
          next     <<>> or <<cfg'>>: the configuration of a second use of auto() on the SAME indicator object, begun
                   when the first one is over (same terminal, the clock goes on); prev = the messages of earlier runs,
          body     the with-body: a sequence of [k |-> "set" | "work" | "raise" | "interrupt", m |-> cells]]
   set = set_message(m) . work = a yield point without effect . raise = the body raises an Exception (ends the body) .
   interrupt = the body raises KeyboardInterrupt (a BaseException; auto() treats it like any other failure of the body).

   P-layer (from the statement; over the terminal, the thread states and the outcome only):
       NoMix       every row of the terminal is blank or exactly one frame " v m" with v one of the indicator
                   values and m one of the messages of this run - never two frames run together
       Joined      when M has left the with-block (either way) the spinner thread has ended - on every kind of output
       EndFrame    after a normal exit the last thing on the screen is a frame showing the end message and nothing
                   was drawn behind it (the cursor rests on a blank row below it)
       Terminates  M leaves the with-block (liveness, weak fairness of M, S and the clock)
   A-layer (from progress_indicator.py): message, current, update (= _message, _current, _update_time), the stop
       event, the lock, the pending frame texts (computed from the state read when _display() evaluated its
       format), the sleep deadline.  Locked = TRUE is the repaired code (_display() holds a lock while it
       computes the frame, erases the line and writes the frame); Locked = FALSE is the pinned code, where
       erase and frame of the two threads interleave freely.
   TLC checks A => P.                                                                                     *)
EXTENDS SpinnerBase

CONSTANTS Locked

VARIABLES cfg,
          pcM, mph, bi, mframe,     \* M: program counter, which _display() it is in ("s"tart,"b"ody,"f"inish), body index, frame text
          pcS, sframe, sdead,       \* S: program counter, frame text, sleep deadline
          message, current, update, \* shared attributes of the indicator
          stop, lock,               \* the Event; the lock's holder ("" = free)
          clock,                    \* virtual clock, ms
          term,                     \* the terminal the error output is connected to
          outcome,                  \* "" while M is inside; "normal" | "raised"
          r0,                       \* the terminal row the cursor was on when this run (this use of auto()) began
          last                      \* the step just taken, as the harness records it: [th, op, ops] (+ at)
vars == <<cfg, pcM, mph, bi, mframe, pcS, sframe, sdead, message, current, update, stop, lock, clock, term,
          outcome, r0, last>>

Quiet == cfg.mode = "quiet"
Plain == cfg.mode = "plain"
NoMix == NoMixT(term, MsgsOf(cfg), cfg.mode, cfg.values)
Joined == pcM = "done" => pcS \in {"new", "done"}      \* "new": never started - cannot happen in auto()
EndFrame == (pcM = "done" /\ outcome = "normal" /\ ~Quiet) => EndFrameT(term, cfg.end, cfg.mode, r0, cfg.values)
Terminates == <>(pcM = "done")

\* ------------------------------------------------------------------ A-layer
\* at: the program counter the thread was at (names the model action; not compared with the code)
Ev(th, op, ops) == [th |-> th, op |-> op, ops |-> ops, at |-> IF th = "M" THEN pcM ELSE IF th = "S" THEN pcS ELSE ""]

\* the frame text of _display() for the mode of this run, and what writing it sends to the stream
FrameOf(c, m) == IF Plain THEN <<" ">> \o m ELSE FrameV(cfg.values, c, m)
WriteFrame(f) == IF Plain THEN <<OpText(f), OpLF>> ELSE FrameOps(f)          \* plain: write_line(frame), one write
\* where a thread stands when it enters _display() (not on a quiet output: there _display() returns at once)
DisplayPc == IF Locked THEN "lock" ELSE IF Plain THEN "frame" ELSE "erase"

\* M runs from the end of body item i-1 to its next yield point:  [pc, bi, msg, mph]
\* (on a quiet output set_message() has no yield point at all: several items can pass in one step)
RECURSIVE Cont(_, _)
Cont(i, msg) ==
  IF i > Len(cfg.body) THEN [pc |-> "f_set", bi |-> i, msg |-> msg, mph |-> mph]     \* finish(): _auto_running.set() first
  ELSE LET it == cfg.body[i] IN
    IF it.k = "set" THEN IF Quiet THEN Cont(i + 1, it.m)
                         ELSE [pc |-> DisplayPc, bi |-> i, msg |-> it.m, mph |-> "b"]
    ELSE IF it.k = "work" THEN [pc |-> "work", bi |-> i, msg |-> msg, mph |-> mph]
    \* "raise" / "interrupt": except-branch of auto(); its write_line("") does not reach a quiet stream
    ELSE [pc |-> IF Quiet THEN "x_set" ELSE "x_lf", bi |-> i, msg |-> msg, mph |-> mph]
Enter(i) == LET c == Cont(i, message) IN
            /\ pcM' = c.pc /\ bi' = c.bi /\ message' = c.msg /\ mph' = c.mph
            /\ mframe' = IF c.pc \in {"erase", "frame"} THEN FrameOf(current, c.msg) ELSE mframe   \* unlocked code only

\* a run begins: start() has run up to its first yield point.  t, clk: the terminal and the clock it finds.
BeginVals(c, t, clk) ==
  [cfg |-> c,
   pcM |-> IF c.mode = "quiet" THEN "tstart"                       \* start() draws nothing
           ELSE IF Locked THEN "lock" ELSE IF c.mode = "plain" THEN "frame" ELSE "erase",
   mframe |-> IF Locked \/ c.mode = "quiet" THEN <<>> ELSE IF c.mode = "plain" THEN <<" ">> \o c.start ELSE FrameV(c.values, 0, c.start),
   update |-> clk + c.interval, r0 |-> t.r]
InitWith(c) ==
  LET v == BeginVals(c, TermNew(c.w), 0) IN
  /\ cfg = c /\ pcM = v.pcM /\ mph = "s" /\ bi = 0 /\ mframe = v.mframe
  /\ pcS = "new" /\ sframe = <<>> /\ sdead = 0
  /\ message = c.start /\ current = 0 /\ update = v.update
  /\ stop = FALSE /\ lock = "" /\ clock = 0
  /\ term = TermNew(c.w) /\ r0 = 1
  /\ outcome = ""
  /\ last = Ev("", "new", <<>>)
\* the same indicator object is used again (auto() a second time) on the terminal t; nothing of the first run matters
\* but where the cursor is and what time it is
RestartOn(t) ==
  /\ pcM = "done" /\ pcS = "done" /\ cfg.next # <<>>
  /\ outcome = "normal"      \* (after a body that raised the indicator stays "started" and refuses another start(): not modelled)
  /\ LET c == cfg.next[1]
         v == BeginVals(c, t, clock) IN
     /\ cfg' = c /\ pcM' = v.pcM /\ mph' = "s" /\ bi' = 0 /\ mframe' = v.mframe
     /\ pcS' = "new" /\ sframe' = <<>> /\ sdead' = 0
     /\ message' = c.start /\ current' = 0 /\ update' = v.update
     /\ stop' = FALSE /\ lock' = "" /\ UNCHANGED clock
     /\ term' = t /\ r0' = t.r
     /\ outcome' = ""
     /\ last' = [th |-> "", op |-> "new", ops |-> <<>>, at |-> outcome]      \* at: how the run before ended
Restart == RestartOn(term)

MLock == /\ pcM = "lock" /\ lock = ""
         /\ lock' = "M" /\ mframe' = FrameOf(current, message) /\ pcM' = IF Plain THEN "frame" ELSE "erase"
         /\ last' = Ev("M", "acquire", <<>>)
         /\ UNCHANGED <<mph, bi, message, current, stop, term, outcome, pcS>>
MErase == /\ pcM = "erase"
          /\ term' = ApplyOps(term, EraseOps) /\ pcM' = "frame"
          /\ last' = Ev("M", "write", EraseOps)
          /\ UNCHANGED <<mph, bi, mframe, message, current, stop, lock, outcome, pcS>>
MFrame == /\ pcM = "frame"
          /\ term' = ApplyOps(term, WriteFrame(mframe))
          /\ lock' = IF Locked THEN "" ELSE lock
          /\ last' = Ev("M", "write", WriteFrame(mframe))
          /\ UNCHANGED <<current, stop, outcome>>
          /\ CASE mph = "s" -> pcM' = "tstart" /\ UNCHANGED <<mph, bi, mframe, message, pcS>>
               [] mph = "b" -> Enter(bi + 1) /\ UNCHANGED pcS
               [] OTHER     -> pcM' = "f_lf" /\ UNCHANGED <<mph, bi, mframe, message, pcS>>
MThreadStart == /\ pcM = "tstart"
                /\ pcS' = "isset"                                 \* the child runs up to its first is_set()
                /\ Enter(1)
                /\ last' = Ev("M", "start", <<>>)
                /\ UNCHANGED <<current, stop, lock, term, outcome>>
MWork == /\ pcM = "work" /\ Enter(bi + 1)
         /\ last' = Ev("M", "work", <<>>)
         /\ UNCHANGED <<current, stop, lock, term, outcome, pcS>>
\* the body raised:  write_line("");  _auto_running.set();  _auto_thread.join();  raise
MXLf == /\ pcM = "x_lf" /\ term' = ApplyOps(term, LFOps) /\ pcM' = "x_set"
        /\ last' = Ev("M", "write", LFOps)
        /\ UNCHANGED <<mph, bi, mframe, message, current, stop, lock, outcome, pcS>>
MXSet == /\ pcM = "x_set" /\ stop' = TRUE /\ pcM' = "x_setret"
         /\ last' = Ev("M", "set", <<>>)
         /\ UNCHANGED <<mph, bi, mframe, message, current, lock, term, outcome, pcS>>
\* set() has returned; what follows (looking up the thread, join) is a step of its own: S may run in between
MXSetRet == /\ pcM = "x_setret" /\ pcM' = "x_join"
            /\ last' = Ev("M", "setret", <<>>)
            /\ UNCHANGED <<mph, bi, mframe, message, current, stop, lock, term, outcome, pcS>>
MXJoin == /\ pcM = "x_join" /\ pcS = "done"
          /\ pcM' = "done" /\ outcome' = "raised"
          /\ last' = Ev("M", "join", <<>>)
          /\ UNCHANGED <<mph, bi, mframe, message, current, stop, lock, term, pcS>>
\* normal exit:  finish(end, reset_indicator=True)
MFSet == /\ pcM = "f_set" /\ stop' = TRUE /\ pcM' = "f_setret"
         /\ last' = Ev("M", "set", <<>>)
         /\ UNCHANGED <<mph, bi, mframe, message, current, lock, term, outcome, pcS>>
MFSetRet == /\ pcM = "f_setret" /\ pcM' = "f_join"
            /\ last' = Ev("M", "setret", <<>>)
            /\ UNCHANGED <<mph, bi, mframe, message, current, stop, lock, term, outcome, pcS>>
MFJoin == /\ pcM = "f_join" /\ pcS = "done"
          /\ message' = cfg.end /\ current' = 0 /\ mph' = "f"
          /\ IF Quiet THEN pcM' = "done" /\ outcome' = "normal" /\ UNCHANGED mframe      \* nothing more reaches the stream
             ELSE /\ pcM' = DisplayPc /\ UNCHANGED outcome
                  /\ mframe' = IF Locked THEN mframe ELSE FrameOf(0, cfg.end)
          /\ last' = Ev("M", "join", <<>>)
          /\ UNCHANGED <<bi, stop, lock, term, pcS>>
MFLf == /\ pcM = "f_lf" /\ term' = ApplyOps(term, LFOps)
        /\ pcM' = "done" /\ outcome' = "normal"
        /\ last' = Ev("M", "write", LFOps)
        /\ UNCHANGED <<mph, bi, mframe, message, current, stop, lock, pcS>>

MStep == /\ (MLock \/ MErase \/ MFrame \/ MThreadStart \/ MWork \/ MXLf \/ MXSet \/ MXSetRet \/ MXJoin \/ MFSet \/ MFSetRet
             \/ MFJoin \/ MFLf)
         /\ UNCHANGED <<cfg, sframe, sdead, update, clock, r0>>

\* S:  while not _auto_running.is_set(): advance(); time.sleep(0.1)
SIsSet == /\ pcS = "isset"
          /\ last' = Ev("S", "isset", <<>>)
          /\ IF stop THEN pcS' = "done" /\ UNCHANGED <<sframe, sdead, current, update>>
             ELSE IF Plain \/ clock < update THEN                 \* advance(): not decorated / too early: no redraw
               pcS' = "sleep" /\ sdead' = clock + SleepMs /\ UNCHANGED <<sframe, current, update>>
             ELSE /\ update' = clock + cfg.interval /\ current' = current + 1
                  /\ IF Quiet THEN pcS' = "sleep" /\ sdead' = clock + SleepMs /\ UNCHANGED sframe   \* _display() returns
                     ELSE IF Locked THEN pcS' = "lock" /\ UNCHANGED <<sframe, sdead>>
                     ELSE pcS' = "erase" /\ sframe' = FrameV(cfg.values, current + 1, message) /\ UNCHANGED sdead
          /\ UNCHANGED <<lock, term>>
SLock == /\ pcS = "lock" /\ lock = ""
         /\ lock' = "S" /\ sframe' = FrameV(cfg.values, current, message) /\ pcS' = "erase"
         /\ last' = Ev("S", "acquire", <<>>)
         /\ UNCHANGED <<sdead, current, update, term>>
SErase == /\ pcS = "erase"
          /\ term' = ApplyOps(term, EraseOps) /\ pcS' = "frame"
          /\ last' = Ev("S", "write", EraseOps)
          /\ UNCHANGED <<sframe, sdead, current, update, lock>>
SFrame == /\ pcS = "frame"
          /\ term' = ApplyOps(term, FrameOps(sframe))
          /\ lock' = IF Locked THEN "" ELSE lock
          /\ pcS' = "sleep" /\ sdead' = clock + SleepMs
          /\ last' = Ev("S", "write", FrameOps(sframe))
          /\ UNCHANGED <<sframe, current, update>>
SWake == /\ pcS = "sleep" /\ clock >= sdead
         /\ pcS' = "isset"
         /\ last' = Ev("S", "sleep", <<>>)
         /\ UNCHANGED <<sframe, sdead, current, update, lock, term>>

SStep == /\ (SIsSet \/ SLock \/ SErase \/ SFrame \/ SWake)
         /\ UNCHANGED <<cfg, pcM, mph, bi, mframe, message, stop, clock, outcome, r0>>

Tick(d) == /\ clock' = clock + d
           /\ last' = Ev("T", "tick", <<>>)
           /\ UNCHANGED <<cfg, pcM, mph, bi, mframe, pcS, sframe, sdead, message, current, update, stop, lock, term,
                          outcome, r0>>

\* what the scheduler calls "enabled"
EnM == \/ pcM \in {"erase", "frame", "tstart", "work", "x_lf", "x_set", "x_setret", "f_set", "f_setret", "f_lf"}
       \/ pcM = "lock" /\ lock = ""
       \/ pcM \in {"x_join", "f_join"} /\ pcS = "done"
EnS == \/ pcS \in {"isset", "erase", "frame"}
       \/ pcS = "lock" /\ lock = ""
       \/ pcS = "sleep" /\ clock >= sdead
\* the operation each thread is waiting at, as the scheduler names it
OpOfM == CASE pcM = "lock" -> "acquire" [] pcM \in {"erase", "frame", "x_lf", "f_lf"} -> "write"
           [] pcM = "tstart" -> "start" [] pcM = "work" -> "work" [] pcM \in {"x_set", "f_set"} -> "set" [] pcM \in {"x_setret", "f_setret"} -> "setret"
           [] pcM \in {"x_join", "f_join"} -> "join" [] OTHER -> "none"
OpOfS == CASE pcS = "lock" -> "acquire" [] pcS \in {"erase", "frame"} -> "write" [] pcS = "isset" -> "isset"
           [] pcS = "sleep" -> "sleep" [] OTHER -> "none"
=============================================================================
