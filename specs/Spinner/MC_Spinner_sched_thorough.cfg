SPECIFICATION HSpec
CONSTANTS
  Locked = TRUE
  Bodies <- BodiesH2
  Modes <- OnlyAnsi
  ValueChoices <- DefaultValues
  Ends <- OneEnd
  Seconds <- NoSecond
  TickMs <- Ticks1
  MaxTicks = 3
  MaxPre = 6
INVARIANT NoMix
INVARIANT Joined
INVARIANT EndFrame
INVARIANT Emit
