--------------------------- MODULE SpinnerManual ---------------------------
(* clikit.ui.components.ProgressIndicator driven by hand (no spinner thread): start / advance / set_message /
   finish under a virtual clock (ms).  Second sentence of property C19.

   cfg = [mode     "ansi" | "plain" | "quiet",
          fmt      "normal" | "verbose"   (verbose: the frame is followed by " (<elapsed>)"; the elapsed text is
                                           outside the model - only its presence and brackets are looked at),
          interval redraw interval (ms),  w  terminal width]
   A call is recorded as  [op, dt, m, reset, frames, ops, exc, gap]:  dt = clock advance before the call, m = the
   message argument (start / set / finish), reset = finish(.., reset_indicator), frames = the frame texts the call wrote (cells), ops = the bytes tokenised,
   exc = class name of an exception that escaped, gap = time since the previous redraw caused by advance (-1: none).

   P-layer (statement):
       FrameOK     every frame is " v m": v one of the indicator values, m the message in force (plain output:
                   " m", the documented format without indicator); verbose formats append " (...)"
       ThrottleOK  a redraw caused by advance() comes no sooner than `interval` after the previous redraw caused by
                   advance()
       LineOK      after a call that drew, the last non-blank row of the terminal is exactly that frame
       CurrentShown  after start / set_message / finish the indicator's line shows the message in force, drawn by that call
       QuietOK     a quiet output receives nothing
   A-layer (progress_indicator.py): started, message, current, update = _started, _message, _current, _update_time;
       start() also arms the throttle (update = now + interval), so the first advance() redraw comes no sooner than
       `interval` after start() - an A-clause, the statement speaks about redraws by advancing only.
       `ever` = start() was called at least once (_start_time is set): a verbose format drawn before that fails with
       TypeError (set_message() before start()) - outside the statement, mirrored so that it is not reported as drift. *)
EXTENDS SpinnerBase

VARIABLES cfg, ind, clock, term, sinceAdv, last
vars == <<cfg, ind, clock, term, sinceAdv, last>>

Cap == 100000
CapAdd(a, d) == IF a < 0 THEN -1 ELSE IF a + d > Cap THEN Cap ELSE a + d

NoMsg == <<"N", "o", "n", "e">>
NewInd == [started |-> FALSE, ever |-> FALSE, message |-> NoMsg, current |-> 0, update |-> 0]

\* ------------------------------------------------------------------ P-layer
IsPrefix(p, s) == Len(p) <= Len(s) /\ SubSeq(s, 1, Len(p)) = p
TailOK(c, rest) == \/ rest = <<>>
                   \/ c.fmt = "verbose" /\ Len(rest) >= 3 /\ rest[1] = " " /\ rest[2] = "(" /\ rest[Len(rest)] = ")"
Heads(c, m) == IF c.mode = "plain" THEN {<<" ">> \o m} ELSE {<<" ", v, " ">> \o m : v \in ValueSet}
FrameShows(c, f, m) == \E h \in Heads(c, m) : IsPrefix(h, f) /\ TailOK(c, SubSeq(f, Len(h) + 1, Len(f)))

FrameOKFor(c, ev, m) == \A k \in 1..Len(ev.frames) : FrameShows(c, ev.frames[k], m)
ThrottleOKFor(c, ev) == (ev.op = "advance" /\ ev.frames # <<>> /\ ev.gap >= 0) => ev.gap >= c.interval
\* (a frame wider than the terminal wraps over several rows: the row-wise clauses claim nothing then, FrameOK still does)
LineOKFor(c, ev, t) == (ev.frames # <<>> /\ c.mode # "quiet" /\ RTrim(ev.frames[Len(ev.frames)]) # <<>>
                        /\ Len(ev.frames[Len(ev.frames)]) <= c.w) =>
                          LET s == Screen(t) IN s # <<>> /\ s[Len(s)] = RTrim(ev.frames[Len(ev.frames)])
\* start(), set_message() and finish() show the message they were given: after the call the last non-blank row is a frame
\* with the message in force, and it was drawn by this call (it is not above the row the cursor was on before the call) -
\* also when the same indicator object is started again after a finish()
CurrentShownFor(c, ev, before, after, m) ==
  (c.mode # "quiet" /\ ev.exc = "" /\ ev.op \in {"start", "set", "finish"} /\ m # <<>> /\ Len(m) + 3 <= c.w) =>   \* (an empty message leaves nothing to look for on the screen; FrameOK covers it)
     LET s == Screen(after) IN s # <<>> /\ Len(s) >= before.r /\ FrameShows(c, s[Len(s)], m)
QuietOKFor(c, ev) == c.mode = "quiet" => (ev.ops = <<>> /\ ev.frames = <<>>)

FrameOK == FrameOKFor(cfg, last, ind.message)
ThrottleOK == ThrottleOKFor(cfg, last)
LineOK == LineOKFor(cfg, last, term)
QuietOK == QuietOKFor(cfg, last)
TermOK == WellFormed(term)

\* ------------------------------------------------------------------ A-layer
InitWith(c) == /\ cfg = c /\ ind = NewInd /\ clock = 0 /\ term = TermNew(c.w) /\ sinceAdv = -1
               /\ last = [op |-> "new", dt |-> 0, m |-> <<>>, reset |-> FALSE, frames |-> <<>>, ops |-> <<>>, exc |-> "", gap |-> -1]

\* _display():  what is written for the indicator state i   -> [frames, ops]
FrameText(i) == IF cfg.mode = "plain" THEN <<" ">> \o i.message ELSE Frame(i.current, i.message)
Display(i) ==
  CASE cfg.mode = "quiet" -> [frames |-> <<>>, ops |-> <<>>]
    [] cfg.mode = "plain" -> [frames |-> <<FrameText(i)>>, ops |-> <<OpText(FrameText(i)), OpLF>>]   \* write_line
    [] OTHER              -> [frames |-> <<FrameText(i)>>, ops |-> EraseOps \o FrameOps(FrameText(i))]
Nothing == [frames |-> <<>>, ops |-> <<>>]
Fails(cls) == [i |-> ind, d |-> Nothing, exc |-> cls]

\* the call's effect at time `now`:  [i : new indicator state, d : [frames, ops], exc]
Result(op, m, reset, now) ==
  CASE op = "start" ->
         IF ind.started THEN Fails("RuntimeError")
         ELSE LET i == [started |-> TRUE, ever |-> TRUE, message |-> m, current |-> 0, update |-> now + cfg.interval]
              IN [i |-> i, d |-> Display(i), exc |-> ""]
    [] op = "advance" ->
         IF ~ind.started THEN Fails("RuntimeError")
         ELSE IF cfg.mode = "plain" \/ now < ind.update THEN [i |-> ind, d |-> Nothing, exc |-> ""]
         ELSE LET i == [ind EXCEPT !.update = now + cfg.interval, !.current = @ + 1]
              IN [i |-> i, d |-> Display(i), exc |-> ""]
    [] op = "set" ->
         LET i == [ind EXCEPT !.message = m] IN
         IF cfg.fmt = "verbose" /\ cfg.mode # "quiet" /\ ~ind.ever THEN [i |-> i, d |-> Nothing, exc |-> "TypeError"]
         ELSE [i |-> i, d |-> Display(i), exc |-> ""]
    [] OTHER ->   \* finish(m): display, then an empty line
         IF ~ind.started THEN Fails("RuntimeError")
         ELSE LET i == [ind EXCEPT !.message = m, !.current = IF reset THEN 0 ELSE @]
                  d == Display(i)
              IN [i |-> [i EXCEPT !.started = FALSE],
                  d |-> [d EXCEPT !.ops = IF cfg.mode = "quiet" THEN <<>> ELSE @ \o LFOps], exc |-> ""]

Ops == {"start", "advance", "set", "finish"}
SinceAdvAfter(op, frames, dt) == IF op = "advance" /\ frames # <<>> THEN 0 ELSE CapAdd(sinceAdv, dt)

Call(dt, op, m, reset) ==
  LET r == Result(op, m, reset, clock + dt) IN
  /\ clock' = clock + dt
  /\ ind' = r.i
  /\ term' = ApplyOps(term, r.d.ops)
  /\ sinceAdv' = SinceAdvAfter(op, r.d.frames, dt)
  /\ last' = [op |-> op, dt |-> dt, m |-> m, reset |-> reset, frames |-> r.d.frames, ops |-> r.d.ops, exc |-> r.exc,
              gap |-> CapAdd(sinceAdv, dt)]
  /\ UNCHANGED cfg
=============================================================================
