---------------------------- MODULE SpinnerTrace ----------------------------
(* Recorded runs of the real ProgressIndicator.auto() under the baton scheduler checked against Spinner.
   event: [th, op, ops, dt,     -- who took the step ("M", "S", "T" = clock), the operation the thread was waiting at,
                                   what the step wrote (tokenised, engine/termbytes.py), clock advance (T only)
           cfg,                 -- first event (op = "new") only: [mode, w, interval, start, end, body]
           outcome, exc, salive, sexc]
                                -- last event (op = "end") only: "normal" | "raised" | "stuck" (M did not leave the
                                   with-block within the step budget although the completion phase of the schedule
                                   is fair); class name of the exception that left the with-block; was a thread
                                   created by the indicator still alive when M left; exception that ended S
   P-clauses are evaluated on `oterm`, the terminal fed with the *observed* writes, and on the observed end event.
   The A-layer (Spinner, Locked = TRUE: the repaired code) runs alongside on the same schedule as long as it agrees
   with the observed operations (`sync`); the first disagreement is reported as DRIFT and the A-layer stops following. *)
EXTENDS Spinner, TraceKit

VARIABLES tid, l, oterm, sync
tvars == <<vars, tid, l, oterm, sync>>
T == Traces[tid]
E == T[l]

TInit == /\ tid \in 1..NTraces /\ l = 1
         /\ InitWith(Traces[tid][1].cfg)
         /\ oterm = TermNew(Traces[tid][1].cfg.w)
         /\ sync = TRUE

Adv == l' = l + 1 /\ tid' = tid
Is(op) == l <= Len(T) /\ E.op = op
Msgs == MsgsOf(cfg)
Raises == \E k \in 1..Len(cfg.body) : cfg.body[k].k \in {"raise", "interrupt"}
FirstRaise == LET S == {k \in 1..Len(cfg.body) : cfg.body[k].k \in {"raise", "interrupt"}} IN
              cfg.body[CHOOSE k \in S : \A j \in S : k <= j].k

TNew == /\ l = 1 /\ Is("new") /\ Adv
        /\ UNCHANGED <<vars, oterm, sync>>
        /\ Check(tid, l, "H.cfg", "", /\ \A m \in Msgs : m # <<>> /\ \A k \in 1..Len(m) : m[k] \notin ValueSet \cup {" "}
                                      /\ \A m \in Msgs : Len(m) + 3 < cfg.w
                                      /\ cfg.mode \in {"ansi", "plain", "quiet"})

ModelCan(th) == (th = "M" /\ EnM) \/ (th = "S" /\ EnS) \/ th = "T"
StepOps == {"write", "sleep", "start", "join", "set", "isset", "acquire", "work", "tick", "wait", "clear"}

\* the P-clauses of a step: on the observed writes only
PStep == /\ oterm' = ApplyOps(oterm, E.ops)
         /\ Check(tid, l, "H.ops.known", "", AllKnown(E.ops) /\ (E.ops # <<>> => E.op = "write"))
         /\ Check(tid, l, "P.nomix", E.th, NoMixT(oterm', Msgs, cfg.mode))

TFollow == /\ l > 1 /\ l <= Len(T) /\ E.op \in StepOps /\ Adv
           /\ sync /\ ModelCan(E.th)
           /\ CASE E.th = "M" -> MStep [] E.th = "S" -> SStep [] OTHER -> Tick(E.dt)
           /\ sync' = (last'.op = E.op /\ last'.ops = E.ops)
           /\ Note(tid, l, "A.step", sync')
           /\ PStep
TAlone == /\ l > 1 /\ l <= Len(T) /\ E.op \in StepOps /\ Adv
          /\ ~(sync /\ ModelCan(E.th))
          /\ UNCHANGED vars /\ sync' = FALSE
          /\ Note(tid, l, "A.step", ~sync)
          /\ PStep

TEnd == /\ l > 1 /\ l = Len(T) /\ Is("end") /\ Adv
        /\ UNCHANGED <<vars, oterm, sync>>
        /\ Check(tid, l, "P.terminates", "", E.outcome # "stuck")
        /\ Check(tid, l, "P.joined", E.outcome, ~E.salive)
        /\ Check(tid, l, "P.endframe", IF E.outcome = "normal" THEN "frame" ELSE E.exc,
                 ~Raises => (E.outcome = "normal" /\ (Quiet \/ EndFrameT(oterm, cfg.end, cfg.mode))))
        /\ Note(tid, l, "A.outcome", sync => (pcM = "done" /\ outcome = E.outcome))
        /\ Note(tid, l, "A.exc", E.sexc = "" /\ (E.outcome = "raised" => (Raises /\ E.exc = (IF FirstRaise = "raise" THEN "BodyError" ELSE "KeyboardInterrupt"))))

TDone == /\ l = Len(T) + 1 /\ l' = l + 1 /\ tid' = tid /\ UNCHANGED <<vars, oterm, sync>> /\ Accept(tid)

TNext == TNew \/ TFollow \/ TAlone \/ TEnd \/ TDone
TSpec == TInit /\ [][TNext]_tvars
=============================================================================
