---------------------------- MODULE SpinnerTrace ----------------------------
(* Recorded runs of the real ProgressIndicator.auto() under the baton scheduler checked against Spinner.
   event: [th, op, ops, dt,     -- who took the step ("M", "S", "T" = clock), the operation the thread was waiting at,
                                   what the step wrote (tokenised, engine/termbytes.py), clock advance (T only)
           cfg,                 -- first event (op = "new") only: [mode, w, interval, start, end, body]
           outcome, exc, salive, sexc]
                                -- last event (op = "end") only: "normal" | "raised" | "stuck" (M did not leave the
                                   with-block within the step budget although the completion phase of the schedule
                                   is fair); class name of the exception that left the with-block; was a thread
                                   created by the indicator still alive when M left; exception that ended S
   P-clauses are evaluated on `oterm`, the terminal fed with the *observed* writes, and on the observed end event.
   The A-layer (Spinner, Locked = TRUE: the repaired code) runs alongside on the same schedule as long as it agrees
   with the observed operations (`sync`); the first disagreement is reported as DRIFT and the A-layer stops following. *)
EXTENDS Spinner, TraceKit

VARIABLES tid, l, oterm, oclock, sync
tvars == <<vars, tid, l, oterm, oclock, sync>>
T == Traces[tid]
E == T[l]

TInit == /\ tid \in 1..NTraces /\ l = 1
         /\ InitWith(Traces[tid][1].cfg)
         /\ oterm = TermNew(Traces[tid][1].cfg.w) /\ oclock = 0
         /\ sync = TRUE

Adv == l' = l + 1 /\ tid' = tid
Is(op) == l <= Len(T) /\ E.op = op
Msgs == MsgsOf(cfg)
Raises == \E k \in 1..Len(cfg.body) : cfg.body[k].k \in {"raise", "interrupt"}
FirstRaise == LET S == {k \in 1..Len(cfg.body) : cfg.body[k].k \in {"raise", "interrupt"}} IN
              cfg.body[CHOOSE k \in S : \A j \in S : k <= j].k

TNew == /\ l = 1 /\ Is("new") /\ Adv
        /\ UNCHANGED <<vars, oterm, oclock, sync>>
        /\ Check(tid, l, "H.cfg", "", /\ Len(cfg.values) >= 2
                                      /\ \A m \in Msgs : \A k \in 1..Len(m) : m[k] \notin {cfg.values[j] : j \in 1..Len(cfg.values)} \cup {" "}
                                      /\ \A m \in Msgs : Len(m) + 3 <= cfg.w        \* a frame may fill the row, it must not wrap
                                      /\ cfg.mode \in {"ansi", "plain", "quiet"})

ModelCan(th) == (th = "M" /\ EnM) \/ (th = "S" /\ EnS) \/ th = "T"
StepOps == {"write", "sleep", "start", "join", "set", "setret", "isset", "acquire", "work", "tick", "wait", "clear"}

\* the P-clauses of a step: on the observed writes only
PStep == /\ oterm' = ApplyOps(oterm, E.ops)
         /\ oclock' = oclock + (IF E.th = "T" THEN E.dt ELSE 0)
         /\ Check(tid, l, "H.ops.known", "", AllKnown(E.ops) /\ (E.ops # <<>> => E.op = "write"))
         /\ Check(tid, l, "P.nomix", E.th, NoMixT(oterm', Msgs, cfg.mode, cfg.values))

TFollow == /\ l > 1 /\ l <= Len(T) /\ E.op \in StepOps /\ Adv
           /\ sync /\ ModelCan(E.th)
           /\ CASE E.th = "M" -> MStep [] E.th = "S" -> SStep [] OTHER -> Tick(E.dt)
           /\ sync' = (last'.op = E.op /\ last'.ops = E.ops)
           /\ Note(tid, l, "A.step", sync')
           /\ PStep
TAlone == /\ l > 1 /\ l <= Len(T) /\ E.op \in StepOps /\ Adv
          /\ ~(sync /\ ModelCan(E.th))
          /\ UNCHANGED vars /\ sync' = FALSE
          /\ Note(tid, l, "A.step", ~sync)
          /\ PStep

\* the same indicator object is used again: a second auto() on the terminal as the first run left it.  The A-layer starts
\* afresh from the observed terminal and clock (and follows again even if it had lost track in the first run).
TAgain == /\ l > 1 /\ Is("new") /\ T[l - 1].op = "end" /\ Adv
          /\ LET c == E.cfg
                 v == BeginVals(c, oterm, oclock) IN
             /\ cfg' = c /\ pcM' = v.pcM /\ mph' = "s" /\ bi' = 0 /\ mframe' = v.mframe
             /\ pcS' = "new" /\ sframe' = <<>> /\ sdead' = 0
             /\ message' = c.start /\ current' = 0 /\ update' = v.update
             /\ stop' = FALSE /\ lock' = "" /\ clock' = oclock
             /\ term' = oterm /\ r0' = oterm.r /\ outcome' = ""
             /\ last' = [th |-> "", op |-> "new", ops |-> <<>>, at |-> ""]
          /\ sync' = TRUE /\ UNCHANGED <<oterm, oclock>>
          /\ Check(tid, l, "H.cfg", "again", E.cfg.mode = cfg.mode /\ E.cfg.w = cfg.w)

TEnd == /\ l > 1 /\ Is("end") /\ Adv
        /\ UNCHANGED <<vars, oterm, oclock, sync>>
        /\ Check(tid, l, "P.terminates", "", E.outcome # "stuck")
        /\ Check(tid, l, "P.joined", E.outcome, ~E.salive)
        /\ Check(tid, l, "P.endframe", IF E.outcome = "normal" THEN "frame" ELSE E.exc,
                 ~Raises => (E.outcome = "normal" /\ (Quiet \/ EndFrameT(oterm, cfg.end, cfg.mode, r0, cfg.values))))
        \* auto() is a context manager: what leaves the with-block is the body's own exception, never one of auto()'s making
        \* - and the body's exception does leave it (auto() does not swallow what the body raises)
        /\ Check(tid, l, "P.foreign", IF E.outcome = "normal" THEN "swallowed" ELSE E.exc,
                 /\ E.outcome = "raised" => (Raises /\ E.exc = (IF FirstRaise = "raise" THEN "BodyError" ELSE "KeyboardInterrupt"))
                 /\ (Raises /\ E.outcome # "stuck") => E.outcome = "raised")
        /\ Note(tid, l, "A.outcome", sync => (pcM = "done" /\ outcome = E.outcome))
        /\ Note(tid, l, "A.exc", E.sexc = "" /\ (E.outcome = "raised" => (Raises /\ E.exc = (IF FirstRaise = "raise" THEN "BodyError" ELSE "KeyboardInterrupt"))))

TDone == /\ l = Len(T) + 1 /\ l' = l + 1 /\ tid' = tid /\ UNCHANGED <<vars, oterm, oclock, sync>> /\ Accept(tid)

TNext == TNew \/ TAgain \/ TFollow \/ TAlone \/ TEnd \/ TDone
TSpec == TInit /\ [][TNext]_tvars
=============================================================================
