-------------------------- MODULE MC_SpinnerManual --------------------------
(* Every call sequence of the hand-driven indicator up to Depth, with clock advances before each call.  `hist` stays
   out of the VIEW: TLC explores the abstract states, each (state, depth) carries one call sequence leading to it;
   those at the depth bound are emitted and replayed on the real ProgressIndicator under the virtual clock.  *)
EXTENDS SpinnerManual, Json, TLC

CONSTANTS MCModes, Intervals, Dts, Depth
VARIABLES hist
hvars == <<vars, hist>>

A == <<"A", "A">>
B == <<"B">>
E == <<"E", "N", "D">>
ModesAll == {"ansi", "plain", "quiet"}
ModesAP == {"ansi", "plain"}
Int1 == {100}
Int2 == {100, 0, 250}
DtsQ == {0, 60, 100}
DtsT == {0, 40, 60, 100, 250}

HInit == /\ \E mode \in MCModes, iv \in Intervals :
              InitWith([mode |-> mode, fmt |-> "normal", interval |-> iv, w |-> 30])
         /\ hist = <<>>
H(Act) == Len(hist) < Depth /\ Act /\ hist' = Append(hist, last')
HStart == \E dt \in Dts : H(Call(dt, "start", A, FALSE))
HAdvance == \E dt \in Dts : H(Call(dt, "advance", <<>>, FALSE))
HSet == \E dt \in Dts : H(Call(dt, "set", B, FALSE))
\* finishing with the start message as well: the same object is then started again with an identical first frame
HFinish == \E dt \in Dts, rs \in BOOLEAN, fm \in {E, A} : H(Call(dt, "finish", fm, rs))
HNext == HStart \/ HAdvance \/ HSet \/ HFinish
HSpec == HInit /\ [][HNext]_hvars
\* only the distance to the next permitted redraw matters, not the absolute time
HView == <<cfg, [ind EXCEPT !.update = IF @ > clock THEN @ - clock ELSE 0], term, sinceAdv, Len(hist)>>
\* `last` is an observation: clauses over it are action properties (evaluated on every transition)
PFrame == [][FrameOK']_hvars
PThrottle == [][ThrottleOK']_hvars
PLine == [][LineOK']_hvars
PQuiet == [][QuietOK']_hvars
PCurrent == [][CurrentShownFor(cfg, last', term, term', ind'.message)]_hvars
\* A: the throttle is armed by start() as well
AFirst == [][(last'.op = "advance" /\ last'.frames # <<>>) => clock' >= ind.update]_hvars
Emit == Len(hist) = Depth => PrintT(ToJson([cfg |-> cfg, events |-> hist]))
=============================================================================
