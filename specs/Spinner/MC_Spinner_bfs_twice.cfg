SPECIFICATION BSpec
CONSTANTS
  Locked = TRUE
  Bodies <- BodiesTwice
  Modes <- AllModes
  ValueChoices <- TwoValueLists
  Ends <- TwoEnds
  Seconds <- SecondsQ
  TickMs <- Ticks1
  MaxTicks = 2
  MaxPre = 0
INVARIANT NoMix
INVARIANT Joined
INVARIANT EndFrame
INVARIANT NoDeadlock
PROPERTY Terminates
