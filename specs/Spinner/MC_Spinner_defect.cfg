SPECIFICATION BSpec
CONSTANTS
  Locked = FALSE
  Bodies <- BodiesOne
  Modes <- OnlyAnsi
  ValueChoices <- DefaultValues
  Ends <- OneEnd
  Seconds <- NoSecond
  TickMs <- Ticks1
  MaxTicks = 2
  MaxPre = 0
INVARIANT NoMix
INVARIANT Joined
INVARIANT EndFrame
