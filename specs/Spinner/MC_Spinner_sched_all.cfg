SPECIFICATION HSpec
CONSTANTS
  Locked = TRUE
  Bodies <- BodiesH
  Modes <- OnlyAnsi
  ValueChoices <- DefaultValues
  Ends <- OneEnd
  Seconds <- NoSecond
  TickMs <- Ticks1
  MaxTicks = 2
  MaxPre = 99
INVARIANT NoMix
INVARIANT Joined
INVARIANT EndFrame
INVARIANT Emit
