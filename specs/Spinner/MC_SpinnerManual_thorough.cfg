SPECIFICATION HSpec
CONSTANTS
  MCModes <- ModesAll
  Intervals <- Int2
  Dts <- DtsT
  Depth = 7
VIEW HView
INVARIANT TermOK
INVARIANT Emit
PROPERTY PFrame
PROPERTY PThrottle
PROPERTY PLine
PROPERTY PQuiet
PROPERTY PCurrent
PROPERTY AFirst
