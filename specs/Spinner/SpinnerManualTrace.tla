------------------------- MODULE SpinnerManualTrace -------------------------
(* Recorded call sequences of the real ProgressIndicator (no spinner thread, virtual clock) checked against
   SpinnerManual.  event: [op, dt, m, reset, frames, ops, exc]; the first event (op = "new") carries cfg.
   The terminal and `sinceAdv` follow the *observed* frames and ops; the A-layer runs alongside (differences: DRIFT). *)
EXTENDS SpinnerManual, TraceKit

VARIABLES tid, l, curmsg
tvars == <<vars, tid, l, curmsg>>
T == Traces[tid]
E == T[l]

TInit == /\ tid \in 1..NTraces /\ l = 1 /\ InitWith(Traces[tid][1].cfg) /\ curmsg = NoMsg
Adv == l' = l + 1 /\ tid' = tid

TNew == /\ l = 1 /\ l <= Len(T) /\ E.op = "new" /\ Adv /\ UNCHANGED <<vars, curmsg>>
        /\ Check(tid, l, "H.cfg", "", cfg.mode \in {"ansi", "plain", "quiet"} /\ cfg.fmt \in {"normal", "verbose"})

Where == cfg.mode \o "/" \o E.op
\* the message in force after the call, from the call itself: the argument of a start / set_message / finish that
\* did not fail
MsgAfter == IF E.op \in {"start", "set", "finish"} /\ E.exc = "" THEN E.m ELSE curmsg

TCall == /\ l > 1 /\ l <= Len(T) /\ E.op \in Ops /\ Adv
         /\ LET r == Result(E.op, E.m, E.reset, clock + E.dt)
                obs == [op |-> E.op, dt |-> E.dt, m |-> E.m, reset |-> E.reset, frames |-> E.frames, ops |-> E.ops, exc |-> E.exc,
                        gap |-> CapAdd(sinceAdv, E.dt)]
            IN /\ clock' = clock + E.dt
               /\ ind' = r.i
               /\ term' = ApplyOps(term, E.ops)
               /\ sinceAdv' = SinceAdvAfter(E.op, E.frames, E.dt)
               /\ curmsg' = MsgAfter
               /\ last' = obs
               /\ UNCHANGED cfg
               /\ Check(tid, l, "H.ops.known", "", IF cfg.mode = "plain" THEN OnlyPlain(E.ops) ELSE AllKnown(E.ops))
               /\ Check(tid, l, "P.quiet", Where, QuietOKFor(cfg, obs))
               /\ Check(tid, l, "P.frame", Where, FrameOKFor(cfg, obs, MsgAfter))
               /\ Check(tid, l, "P.throttle", Where, ThrottleOKFor(cfg, obs))
               /\ Check(tid, l, "P.line", Where, LineOKFor(cfg, obs, term'))
               /\ Check(tid, l, "P.current", Where, CurrentShownFor(cfg, obs, term, term', MsgAfter))
               /\ Note(tid, l, "A.exc", E.exc = r.exc)
               /\ Note(tid, l, "A.frames", cfg.fmt = "normal" => E.frames = r.d.frames)
               /\ Note(tid, l, "A.draws", Len(E.frames) = Len(r.d.frames))
               /\ Note(tid, l, "A.ops", cfg.fmt = "normal" => E.ops = r.d.ops)

TDone == /\ l = Len(T) + 1 /\ l' = l + 1 /\ tid' = tid /\ UNCHANGED <<vars, curmsg>> /\ Accept(tid)
TNext == TNew \/ TCall \/ TDone
TSpec == TInit /\ [][TNext]_tvars
=============================================================================
