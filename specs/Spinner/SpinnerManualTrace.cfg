SPECIFICATION TSpec
INVARIANT TermOK
