SPECIFICATION BSpec
CONSTANTS
  Locked = TRUE
  Bodies <- BodiesT
  Modes <- AllModes
  ValueChoices <- DefaultValues
  Ends <- OneEnd
  Seconds <- NoSecond
  TickMs <- Ticks2
  MaxTicks = 5
  MaxPre = 0
INVARIANT NoMix
INVARIANT Joined
INVARIANT EndFrame
INVARIANT NoDeadlock
PROPERTY Terminates
