SPECIFICATION BSpec
CONSTANTS
  Locked = TRUE
  Bodies <- BodiesT
  Modes <- AllModes
  Seconds <- NoSecond
  TickMs <- Ticks2
  MaxTicks = 6
  MaxPre = 0
INVARIANT NoMix
INVARIANT Joined
INVARIANT EndFrame
INVARIANT NoDeadlock
PROPERTY Terminates
