SPECIFICATION HSpec
CONSTANTS
  Locked = TRUE
  Bodies <- BodiesTwice
  Modes <- AnsiPlain
  ValueChoices <- DefaultValues
  Ends <- OneEnd
  Seconds <- SecondsH
  TickMs <- Ticks1
  MaxTicks = 1
  MaxPre = 2
INVARIANT NoMix
INVARIANT Joined
INVARIANT EndFrame
INVARIANT Emit
