SPECIFICATION SSpec
CONSTANTS
  Locked = TRUE
  Bodies <- BodiesT
  Modes <- AllModes
  ValueChoices <- TwoValueLists
  Ends <- TwoEnds
  Seconds <- SecondsQ
  TickMs <- Ticks2
  MaxTicks = 8
  MaxPre = 0
INVARIANT NoMix
INVARIANT Joined
INVARIANT EndFrame
INVARIANT Emit
