SPECIFICATION HSpec
CONSTANTS
  MCModes <- ModesAll
  Intervals <- Int1
  Dts <- DtsQ
  Depth = 6
VIEW HView
INVARIANT TermOK
INVARIANT Emit
PROPERTY PFrame
PROPERTY PThrottle
PROPERTY PLine
PROPERTY PQuiet
PROPERTY PCurrent
PROPERTY AFirst
