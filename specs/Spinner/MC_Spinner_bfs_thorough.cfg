SPECIFICATION BSpec
CONSTANTS
  Locked = TRUE
  Bodies <- BodiesAll
  Modes <- AllModes
  ValueChoices <- TwoValueLists
  Ends <- OneEnd
  Seconds <- NoSecond
  TickMs <- Ticks2
  MaxTicks = 8
  MaxPre = 0
INVARIANT NoMix
INVARIANT Joined
INVARIANT EndFrame
INVARIANT NoDeadlock
PROPERTY Terminates
