---------------------------- MODULE SpinnerBase ----------------------------
(* What a frame of clikit's ProgressIndicator is and what the statement of C19 says about the terminal line;
   shared by Spinner (automatic mode, two threads) and SpinnerManual (no spinner thread).
   Text is cells (1-character strings).  No constants, no variables.                                        *)
EXTENDS Integers, Sequences, Terminal

Values == <<"-", "%", "|", "/">>            \* the default indicator values; "%" stands for the backslash
SleepMs == 100                               \* time.sleep(0.1) in _spin
NValues == Len(Values)
ValueSet == {Values[k] : k \in 1..NValues}

\* format NORMAL  " {indicator} {message}"
\* with the indicator values vals (constructor argument `values`; Values is the default)
FrameV(vals, c, m) == <<" ", vals[(c % Len(vals)) + 1], " ">> \o m
Frame(c, m) == FrameV(Values, c, m)
EraseOps == <<OpCR, OpEL(2)>>               \* "\r\x1b[2K", one write
FrameOps(f) == <<OpText(f)>>
LFOps == <<OpLF>>

\* ------------------------------------------------------------------ P-layer operators
\* the messages of one use of auto(): cfg = [start, end, body : Seq([k, m])]
\* (c.prev: the messages of earlier runs of the same indicator on this terminal - their lines are still on the screen)
MsgsOf(c) == {c.start, c.end} \cup {c.body[k].m : k \in {j \in 1..Len(c.body) : c.body[j].k = "set"}}
             \cup {c.prev[k] : k \in 1..Len(c.prev)}
\* a row shows exactly one frame: blank, one indicator value, blank, one of the messages  (trailing blanks aside)
\* (a not decorated output - mode "plain" - shows the documented format without indicator: blank, message)
IsOneFrame(row, msgs, mode, vals) ==
  IF mode = "plain" THEN \E m \in msgs : RTrim(row) = RTrim(<<" ">> \o m)
  ELSE \E k \in 1..Len(vals), m \in msgs : RTrim(row) = RTrim(<<" ", vals[k], " ">> \o m)
\* no row of the terminal shows anything but nothing or one frame
NoMixT(t, msgs, mode, vals) == \A k \in 1..Len(t.rows) : RTrim(t.rows[k]) = <<>> \/ IsOneFrame(t.rows[k], msgs, mode, vals)
\* the last thing on the screen is a frame with the end message, and nothing has been drawn behind it: the row the
\* cursor is left on (after the line end that closes the indicator's line) is blank and lies below that frame
\* r0 = the row the cursor was on when THIS run began: the frame must have been drawn by this run, not be a leftover
\* (an empty end message is an end message: the decorated frame then is blank, value, blank; on a not decorated output its
\* frame is a blank line - nothing to be seen, nothing claimed)
EndFrameT(t, end, mode, r0, vals) ==
  \/ mode = "plain" /\ end = <<>>
  \/ LET s == Screen(t) IN /\ s # <<>> /\ IsOneFrame(s[Len(s)], {end}, mode, vals) /\ Len(s) >= r0
                                           /\ t.r > Len(s) /\ RTrim(t.rows[t.r]) = <<>>
=============================================================================
