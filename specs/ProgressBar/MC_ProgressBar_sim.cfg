SPECIFICATION HSpec
CONSTANTS
  PercentExact = TRUE
  NewlineByWrites = TRUE
  MoveUpAfterFirst = FALSE
  FinishDrawsNoMax = TRUE
  ClearCountsRows = TRUE
  MCModes <- AllModes
  MCWidths <- W3
  MCGaps <- Gaps2
  MCFormats <- FmtAll
  MCMax <- MaxBig
  Ticks <- TicksT
  StartArgs <- StartT
  AdvArgs <- AdvBig
  SetArgs <- SetBig
  Msgs <- MsgsQ
  MCFreq = 1
  Switch <- SwitchQ
  Rewidth <- RewidthQ
  Charsets <- CharsQ
  MCSecPre <- NoSecPre
  Depth = 24
VIEW HView
PROPERTY PFrameShape
PROPERTY PBarWidth
PROPERTY PStep
PROPERTY PPercent
PROPERTY PThrottle
PROPERTY PMaxDraws
PROPERTY PFinish
PROPERTY PQuiet
PROPERTY PPlainOps
INVARIANT AnsiLine
INVARIANT PlainOwnLine
INVARIANT TermOK
INVARIANT Emit
