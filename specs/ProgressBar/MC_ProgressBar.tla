-------------------------- MODULE MC_ProgressBar --------------------------
(* Model-checking harness for ProgressBar: the configuration (mode, bar width, minimum interval, format, initial
   maximum) is chosen in the initial state, then every sequence of calls with clock advances in between up to
   Depth.  `hist` (the calls with their observations) stays out of the VIEW: TLC explores the abstract state
   space and every (state, depth) carries one call sequence leading to it, emitted at the depth bound and replayed
   on the real ProgressBar under a virtual clock.                                                               *)
EXTENDS ProgressBar, Json, TLC

CONSTANTS MCModes, MCWidths, MCGaps, MCFormats, MCMax,   \* configuration space
          Ticks,                                         \* clock advances before a call (ticks of 1/1024 s)
          StartArgs, AdvArgs, SetArgs, Msgs,             \* call arguments
          MCFreq,                                        \* set_redraw_frequency (effective without a minimum interval)
          Switch, Rewidth, Charsets,                     \* set_format / set_bar_width / character setters between draws
          MCSecPre,                                      \* what a section holds before the bar is created
          Depth

VARIABLES hist
hvars == <<vars, hist>>

AllModes == {"ansi", "plain", "section", "quiet"}
ModesAP == {"ansi", "plain"}
ModesS == {"section", "quiet"}
ModesAPS == {"ansi", "plain", "section"}
OnlyAnsi == {"ansi"}
OnlyPlain2 == {"plain"}
FmtNormal == {"normal"}
FmtCustom == {"msg", "two"}
FmtAll == {"normal", "msg", "two"}
Gaps2 == {0, 103}                                         \* throttle off / 0.1 s
GapOn == {103}
Gaps3 == {0, 103, 3000}                                  \* ... / 2.9 s: longer than the maximum interval of 1 s
GapsOffBig == {0, 3000}
W1 == {4}
W3 == {1, 4, 10}
Max4 == {0, 1, 3, 10}
Max2 == {0, 3}
MaxOne == {3}
MaxBig == {50, 200}
TicksQ == {0, 51, 2048}                                   \* 0, ~50 ms, 2 s
TicksT == {0, 10, 51, 205, 2048}                          \* 0, ~10 ms, ~50 ms, ~200 ms, 2 s
StartQ == {-1, 3}                                         \* start() / start(3)
StartOne == {-1}
StartT == {-1, 0, 3, 10}
AdvQ == {1, 2}
AdvOne == {1}
AdvBig == {1, 7, 29}
SetQ == {-1, 2, 12}                                       \* below zero / inside / beyond the maximum
SetTwo == {2, 12}
SetNone == {}
SetBig == {-1, 29, 58, 199, 250}
NoMsgs == {}
NoSecPre == <<>>
OneSecPre == << <<"s", "e", "c">> >>                       \* the section holds a line of its own above the bar
NoSwitch == {}
SwitchQ == {"normal", "msg"}
RewidthQ == {2, 4}
CharsQ == {DefaultChars, [bar |-> "#", empty |-> "~", prog |-> <<>>]}
MsgsQ == {<<"m">>, <<"l", "o", "n", "g", "e", "r">>, <<>>}
Pre == << <<"#", "#">> >>
\* a multi-line format moves the cursor up before its very first frame as well (pinned by the repository's
\* test_multiline_format) and so overwrites the line above the bar; the statement does not speak about other
\* output, therefore two-line formats start on an empty screen here and in the recorded runs
TermW == 60

Cfg(mode, bw, gap, fmt, m) == [mode |-> mode, bw |-> bw, mingap |-> gap, maxgap |-> 1024, freq |-> MCFreq, fmt |-> fmt,
                               chars |-> DefaultChars, w |-> TermW,
                               pre |-> IF fmt = "two" THEN <<>> ELSE Pre,
                               secpre |-> IF mode = "section" THEN MCSecPre ELSE <<>>, max0 |-> m]

\* recorded per call: the event and the configurable part of the configuration in force after it
Obs == last @@ [conf |-> [fmt |-> cfg.fmt, bw |-> cfg.bw, chars |-> cfg.chars]]

HInit == /\ \E mode \in MCModes, bw \in MCWidths, gap \in MCGaps, fmt \in MCFormats, m \in MCMax :
              InitWith(Cfg(mode, bw, gap, fmt, m))
         /\ hist = <<Obs>>                                  \* the "new" event: the configuration the bar is created with

H(A) == Len(hist) <= Depth /\ A /\ hist' = Append(hist, Obs')
HStart   == \E dt \in Ticks, m \in StartArgs : H(Call(dt, "start", m))
HAdvance == \E dt \in Ticks, k \in AdvArgs : H(Call(dt, "advance", k))
HSet     == \E dt \in Ticks, n \in SetArgs : H(Call(dt, "set", n))
HDisplay == \E dt \in Ticks : H(Call(dt, "display", 0))
HClear   == \E dt \in Ticks : H(Call(dt, "clear", 0))
HFinish  == \E dt \in Ticks : H(Call(dt, "finish", 0))
HMessage == \E m \in Msgs : cfg.fmt # "normal" /\ m # bar.msg /\ H(SetMessage(m))

HFormat == \E f \in Switch : cfg.fmt # "two" /\ f # cfg.fmt /\ H(Reconfigure("fmt", f, cfg.bw, cfg.chars))
HWidth == \E w \in Rewidth : w # cfg.bw /\ H(Reconfigure("bw", cfg.fmt, w, cfg.chars))
HChars == \E c \in Charsets : c # cfg.chars /\ H(Reconfigure("chars", cfg.fmt, cfg.bw, c))

HNext == HStart \/ HAdvance \/ HSet \/ HDisplay \/ HClear \/ HFinish \/ HMessage \/ HFormat \/ HWidth \/ HChars
HSpec == HInit /\ [][HNext]_hvars
\* `last` (what the last call was and what it wrote) and `hist` are observations only: they are kept out of the VIEW,
\* and the clauses that talk about `last` are checked on every transition as action properties (TLC evaluates
\* those also for successors whose view was seen before); clauses over the rest of the state are invariants
HView == <<cfg, bar, sec, term, shown, sinceAdv, plog, Len(hist)>>
PFrameShape == [][FrameShape']_hvars
PBarWidth == [][BarWidthOK']_hvars
PStep == [][StepOK']_hvars
PPercent == [][PercentOK']_hvars
PThrottle == [][ThrottleOK']_hvars
PMaxDraws == [][MaxDraws']_hvars
PFinish == [][FinishOK' /\ FinishEnds']_hvars
PQuiet == [][QuietNothing']_hvars
PPlainOps == [][(Plain => OnlyPlain(last.ops))']_hvars

Emit == Len(hist) = Depth + 1 => PrintT(ToJson([cfg |-> cfg, events |-> hist]))
=============================================================================
