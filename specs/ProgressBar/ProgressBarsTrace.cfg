SPECIFICATION TSpec
