----------------------------- MODULE ProgressBar -----------------------------
(* clikit.ui.components.ProgressBar  (property C16)  on the shared Terminal model.

   Time is counted in ticks of 1/1024 s (a virtual clock substituted for the `time` module returns ticks/1024.0, so
   every subtraction the code performs in floating point is exact).  An interval of 0.1 s is "103 ticks or more".

   A frame is the record the harness projects out of one write of the bar:
       [ok, cur, hasmax, max, haspct, pct, bar, lines]     (ok: the text matched the configured format; bar and
                                                            lines are cells = 1-character strings)
   P-layer (from the statement), all over observable quantities - the frames written by the last call, the public
   get_progress()/get_max_steps() after it, the terminal, the time since the previous advance-caused frame:
       FrameShape, BarWidthOK   every frame matches its format and its bar segment is exactly `bw` cells wide
       StepOK, PercentOK        it shows the current step, 0 <= step (<= max when there is a maximum) and
                                floor(100*step/max) as percentage
       ThrottleOK               a frame caused by advance/set_progress that is not at the maximum comes no sooner
                                than `mingap` after the previous frame caused by advance/set_progress
       MaxDraws, FinishOK, FinishEnds   reaching the maximum draws; after finish() the last frame shows max/max, 100 %;
                                finish() never takes progress back
       AnsiLine                 ANSI (also through a section): the screen is what was there before plus exactly the
                                latest frame (nothing after clear()) - no residue of longer earlier frames
       PlainOwnLine             plain: no control codes; every frame stands on its own line (empty lines aside)
       QuietNothing             quiet: nothing reaches the stream
   A-layer (from progress_bar.py): `bar` mirrors the attributes _max, _step, _step_width, _last_write_time (as time
       since), _last_messages_length, _write_count, _format (fmtset/nomax/flc) and the operations are transcribed:
       set_progress with clamping / growth / the redraw decision, display, clear, finish, start, _overwrite with
       its three output variants (carriage return, section clear(n)+write, new line).  Arithmetic is exact:
       PercentExact = TRUE is the repaired code (integer arithmetic); the pinned code went through a float.
       NewlineByWrites = TRUE is the repaired plain variant (new line before every frame but the first one written);
       FALSE is the pinned code (new line only when step > 0).
       MoveUpAfterFirst = FALSE is the code (a multi-line format moves the cursor up even before its first frame;
       pinned by test_multiline_format); TRUE would move up only when a frame is on screen.
       FinishDrawsNoMax = TRUE is the repaired finish() (a bar without maximum always draws its final frame; the
       pinned code skipped it on a plain output because it had just set max := step).
   TLC checks A => P.                                                                                           *)
EXTENDS Integers, Sequences, Terminal
LOCAL INSTANCE SequencesExt

CONSTANTS PercentExact, NewlineByWrites, MoveUpAfterFirst, FinishDrawsNoMax,
          ClearCountsRows                \* SectionOutput.clear(n) as in Sections.tla (TRUE = repaired)

VARIABLES cfg,       \* [mode, bw, mingap, maxgap, freq, fmt, chars, w, pre, secpre, max0]; mode, gaps, freq, w, pre, max0 are fixed per
                     \* behaviour; fmt / bw / chars follow set_format / set_bar_width / the character setters
                     \* chars = [bar, empty, prog]: bar = "" is the default ("=" with a maximum, else the empty-bar
                     \* character); prog is a sequence of 0 or 1 cells
          bar,       \* A: the ProgressBar object
          sec,       \* A: the SectionOutput the bar writes to in section mode  [content, lines]
          term,      \* environment
          shown,     \* P: the latest frame on display, NoFrame, or Cleared
          sinceAdv,  \* P: ticks since the last frame caused by advance/set_progress (capped), -1 = none yet
          plog,      \* P: the lines of every frame written so far (plain mode)
          last       \* the last call as an event record
vars == <<cfg, bar, sec, term, shown, sinceAdv, plog, last>>

Modes == {"ansi", "plain", "section", "quiet"}
Formats == {"normal", "msg", "two"}                          \* rendered cell by cell by the A-layer
Named == {"normal", "verbose", "very_verbose", "debug"}      \* built-in formats: have a variant without maximum
\*   "normal"  the built-in format of normal verbosity:  " %current%/%max% [%bar%] %percent:3s%%"  /  without a
\*             maximum at the first display  " %current% [%bar%]"
\*   "msg"     custom:  "%message% %current%/%max% [%bar%] %percent:3s%%"
\*   "two"     custom, two lines:  "%current%/%max% [%bar%]\n%message%"

NoFrame == [ok |-> TRUE, cur |-> -1, hasmax |-> FALSE, max |-> 0, haspct |-> FALSE, pct |-> 0, bar |-> <<>>,
            lines |-> <<>>]
Cleared == [NoFrame EXCEPT !.cur = -2]
IsFrame(f) == f.cur >= 0

\* ------------------------------------------------------------------ P-layer
Quiet == cfg.mode = "quiet"
Plain == cfg.mode = "plain"
Overwrites == cfg.mode \in {"ansi", "section"}
Frames == last.frames
AllFrames(P(_)) == \A k \in 1..Len(Frames) : P(Frames[k])
ByAdvance == last.op \in {"advance", "set"}

FrameShape == AllFrames(LAMBDA f : f.ok)
BarWidthOK == AllFrames(LAMBDA f : f.ok => Len(f.bar) = cfg.bw)
StepOK == AllFrames(LAMBDA f : f.ok => /\ f.cur = last.progress /\ f.cur >= 0
                                       /\ f.hasmax => f.max = last.maxsteps
                                       /\ last.maxsteps # 0 => f.cur <= last.maxsteps)   \* 0 = no maximum
PercentOK == AllFrames(LAMBDA f : (f.ok /\ f.haspct /\ last.maxsteps > 0) => f.pct = (100 * f.cur) \div last.maxsteps)
ThrottleOK == (ByAdvance /\ Frames # <<>> /\ last.progress # last.maxsteps /\ last.gap >= 0) => last.gap >= cfg.mingap
\* "reaching": the call changed the step or the maximum and left step = maximum
MaxDraws == (ByAdvance /\ ~Quiet /\ last.exc = "" /\ last.maxsteps > 0 /\ last.progress = last.maxsteps
             /\ (last.pprog # last.progress \/ last.pmax # last.maxsteps)) => Frames # <<>>
FinishOK == (last.op = "finish" /\ ~Quiet /\ last.exc = "" /\ last.maxsteps > 0) =>
              /\ IsFrame(shown) /\ shown.cur = last.maxsteps
              /\ shown.hasmax => shown.max = last.maxsteps
              /\ shown.haspct => shown.pct = 100
\* "ends at 100 %": finish() never takes progress back, and a bar that has advanced ends with step = maximum (a bar
\* without maximum gets its step as maximum)
FinishEnds == (last.op = "finish" /\ last.exc = "") =>
                /\ last.progress >= last.pprog
                /\ last.pprog > 0 => last.maxsteps = last.progress
ShownLines == IF IsFrame(shown) THEN shown.lines ELSE <<>>
\* cfg.secpre: lines the section already held when the bar was created (section mode) - they stay above the bar
AnsiLine == Overwrites => Screen(term) = Visible(FoldAll(cfg.pre \o cfg.secpre \o ShownLines, cfg.w))
\* blank rows are not counted: the statement asks that every frame stands on a line of its own, not that no empty
\* line separates frames (the pinned code starts with a new line when the first frame is drawn at a step > 0)
NonBlank(rows) == SelectSeq(rows, LAMBDA r : r # <<>>)
PlainOwnLine == Plain => /\ OnlyPlain(last.ops)
                         /\ NonBlank(Screen(term)) = NonBlank(Visible(FoldAll(cfg.pre \o plog, cfg.w)))
QuietNothing == Quiet => last.ops = <<>>

\* how the P-state follows a call that wrote the frames fs
RECURSIVE LinesOf(_)
LinesOf(fs) == IF fs = <<>> THEN <<>> ELSE Head(fs).lines \o LinesOf(Tail(fs))
CapAdd(x, dt) == IF x < 0 THEN x ELSE TMin(cfg.mingap, x + dt)      \* only ever compared with mingap
ShownAfter(op, fs) == IF fs # <<>> THEN fs[Len(fs)]
                      ELSE IF op = "clear" /\ Overwrites THEN Cleared ELSE shown
SinceAdvAfter(op, fs, dt) == IF op \in {"advance", "set"} /\ fs # <<>> THEN 0 ELSE CapAdd(sinceAdv, dt)

\* ------------------------------------------------------------------ A-layer: rendering
DigitChars == <<"0", "1", "2", "3", "4", "5", "6", "7", "8", "9">>
RECURSIVE Digits(_)
Digits(n) == IF n < 10 THEN <<DigitChars[n + 1]>> ELSE Digits(n \div 10) \o <<DigitChars[(n % 10) + 1]>>
Rep(ch, n) == [k \in 1..n |-> ch]
RJust(s, n) == Blanks(n - Len(s)) \o s
LJust(s, n) == s \o Blanks(n - Len(s))

FreqNone == cfg.mingap > 0 \/ Plain                       \* redraw_freq is None
Pct(b) == IF b.max = 0 THEN 0 ELSE (100 * b.step) \div b.max
FillOf(b) == IF b.max > 0 THEN (b.step * cfg.bw) \div b.max
             ELSE IF FreqNone THEN ((TMin(75, cfg.bw) * b.writes) % (15 * cfg.bw)) \div 15   \* min(5, w/15)*writes % w
             ELSE b.step % cfg.bw
BarCells(b) == LET fill == FillOf(b) IN
               Rep(IF cfg.chars.bar # "" THEN cfg.chars.bar ELSE IF b.max > 0 THEN "=" ELSE cfg.chars.empty, fill)
               \o (IF fill < cfg.bw THEN cfg.chars.prog \o Rep(cfg.chars.empty, cfg.bw - fill - Len(cfg.chars.prog))
                   ELSE <<>>)
Cur(b) == RJust(Digits(b.step), b.stepw)
Render(b) ==
  CASE cfg.fmt \in Named /\ b.nomax -> << <<" ">> \o Cur(b) \o <<" ", "[">> \o BarCells(b) \o <<"]">> >>
    [] cfg.fmt \in Named -> << <<" ">> \o Cur(b) \o <<"/">> \o Digits(b.max) \o <<" ", "[">> \o BarCells(b)
                                \o <<"]", " ">> \o RJust(Digits(Pct(b)), 3) \o <<"%">> >>
    [] cfg.fmt = "msg" -> << b.msg \o <<" ">> \o Cur(b) \o <<"/">> \o Digits(b.max) \o <<" ", "[">> \o BarCells(b)
                             \o <<"]", " ">> \o RJust(Digits(Pct(b)), 3) \o <<"%">> >>
    [] OTHER -> << Cur(b) \o <<"/">> \o Digits(b.max) \o <<" ", "[">> \o BarCells(b) \o <<"]">>, b.msg >>
FrameOf(b) ==
  LET hm == ~(cfg.fmt \in Named /\ b.nomax)
      hp == cfg.fmt = "msg" \/ (cfg.fmt \in Named /\ ~b.nomax)
  IN [ok |-> TRUE, cur |-> b.step, hasmax |-> hm, max |-> IF hm THEN b.max ELSE 0,
      haspct |-> hp, pct |-> IF hp THEN Pct(b) ELSE 0, bar |-> BarCells(b), lines |-> Render(b)]

\* "\n".join(lines): text, newline, text ... without a final newline; an empty line emits nothing
JoinOps(ls) == FoldLeft(LAMBDA acc, k : acc \o (IF k > 1 THEN <<OpLF>> ELSE <<>>)
                                            \o (IF ls[k] = <<>> THEN <<>> ELSE <<OpText(ls[k])>>),
                        <<>>, [k \in 1..Len(ls) |-> k])
LinesOps(ls) == FoldLeft(LAMBDA acc, x : acc \o (IF x = <<>> THEN <<OpLF>> ELSE <<OpText(x), OpLF>>), <<>>, ls)
MaxLen(ls) == FoldLeft(LAMBDA acc, x : TMax(acc, Len(x)), 0, ls)

\* the single SectionOutput under the bar (Sections.tla with one section: nothing below it to re-print)
SumRows(ls) == FoldLeft(LAMBDA acc, x : acc + RowsNeeded(Len(x), cfg.w), 0, ls)
SecClearN(s, n) ==                                          \* n >= 1
  IF s.content = <<>> THEN [ops |-> <<>>, s |-> s]
  ELSE LET keep == IF n >= Len(s.content) THEN 0 ELSE Len(s.content) - n
           gone == SubSeq(s.content, keep + 1, Len(s.content))
           rows == IF ClearCountsRows THEN SumRows(gone) ELSE n
       IN [ops |-> IF rows > 0 THEN <<OpCUU(rows), OpED(0)>> ELSE <<>>,
           s   |-> [content |-> SubSeq(s.content, 1, keep), lines |-> IF s.lines >= rows THEN s.lines - rows ELSE 0]]
SecWrite(s, ls) == [ops |-> LinesOps(ls), s |-> [content |-> s.content \o ls, lines |-> s.lines + SumRows(ls)]]

\* _overwrite(message): pad to the length of the previous frame, go back / clear / new line, write
Overwrite(b, s, msgLines) ==
  LET ls  == [k \in 1..Len(msgLines) |-> LJust(msgLines[k], b.lastLen)]
      b2  == [b EXCEPT !.lastLen = MaxLen(ls), !.since = 0, !.writes = @ + 1]
  IN CASE cfg.mode = "section" ->
            \* only a frame written earlier is replaced (repaired: the code used to clear on the first write too and
            \* took the last line the section already held)
            LET c == IF b.writes = 0 THEN [ops |-> <<>>, s |-> s] ELSE SecClearN(s, (Len(ls) \div cfg.w) + b.flc + 1)
                w == SecWrite(c.s, ls)
            IN [ops |-> c.ops \o w.ops, b |-> b2, s |-> w.s]
       [] cfg.mode = "plain" ->
            [ops |-> (IF (IF NewlineByWrites THEN b.writes > 0 ELSE b.step > 0) THEN <<OpLF>> ELSE <<>>) \o JoinOps(ls),
             b |-> b2, s |-> s]
       [] OTHER ->                                           \* "ansi"; "quiet": the same calls, nothing passes the gate
            [ops |-> IF Quiet THEN <<>>
                     ELSE <<OpCR>> \o (IF b.flc > 0 /\ (MoveUpAfterFirst => b.writes > 0) THEN <<OpCUU(b.flc)>> ELSE <<>>)
                          \o JoinOps(ls),
             b |-> b2, s |-> s]

Result(ops, b, s, fs) == [ops |-> ops, b |-> b, s |-> s, frames |-> fs]
Nothing(b, s) == Result(<<>>, b, s, <<>>)

FixFormat(b) == IF b.fmtset THEN b      \* _set_real_format at the first display / clear
                ELSE [b EXCEPT !.fmtset = TRUE, !.nomax = (cfg.fmt \in Named /\ b.max = 0),
                               !.flc = IF cfg.fmt = "two" THEN 1 ELSE 0]

Display(b, s) ==
  IF Quiet THEN Nothing(b, s)
  ELSE LET b1 == FixFormat(b)
           f  == FrameOf(b1)
           o  == Overwrite(b1, s, f.lines)
       IN Result(o.ops, o.b, o.s, <<f>>)

ClearBar(b, s) ==
  IF Plain THEN Nothing(b, s)
  ELSE LET b1 == FixFormat(b)
           o  == Overwrite(b1, s, [k \in 1..(b1.flc + 1) |-> <<>>])
       IN Result(o.ops, o.b, o.s, <<>>)

SetProgress(b, s, n) ==
  LET grow == b.max > 0 /\ n > b.max
      max1 == IF grow THEN n ELSE b.max
      n1   == IF ~grow /\ n < 0 THEN 0 ELSE n
      Period(x) == IF FreqNone THEN (IF max1 > 0 THEN (10 * x) \div max1 ELSE x) ELSE x \div cfg.freq  \* set_redraw_frequency
      b1   == [b EXCEPT !.max = max1, !.step = n1]
  IN IF n1 = max1 THEN Display(b1, s)                                   \* draw regardless of other limits
     ELSE IF b.since < cfg.mingap THEN Nothing(b1, s)                   \* throttling
     ELSE IF Period(b.step) # Period(n1) \/ b.since >= cfg.maxgap THEN Display(b1, s)
     ELSE Nothing(b1, s)

Finish(b, s) ==
  IF b.max = 0 THEN                                           \* the maximum is only now defined as the current step
    LET b0 == [b EXCEPT !.max = b.step] IN
    IF ~FinishDrawsNoMax /\ Plain THEN Nothing(b0, s)         \* pinned: "step == max and not overwrite: return"
    ELSE SetProgress(b0, s, b0.max)
  ELSE IF b.step = b.max /\ Plain THEN Nothing(b, s)          \* prevent a double 100 % frame
  ELSE SetProgress(b, s, b.max)

Start(b, s, m) ==                                            \* m < 0: start() without a maximum
  LET b1 == IF m < 0 THEN [b EXCEPT !.step = 0]
            ELSE [b EXCEPT !.step = 0, !.max = m, !.stepw = IF m > 0 THEN Len(Digits(m)) ELSE 4]
  IN Display(b1, s)

\* since: ticks since the last write, capped at the larger of the two intervals (a minimum interval may exceed the
\* maximum one - then the throttle wins: nothing is drawn before mingap has passed); _last_write_time = 0 initially lies in the distant past
\* (never throttles, always "too late"), which is the cap
NewBar(m, maxgap) == [max |-> m, step |-> 0, stepw |-> IF m > 0 THEN Len(Digits(m)) ELSE 4, since |-> maxgap,
                      lastLen |-> 0, writes |-> 0, fmtset |-> FALSE, nomax |-> FALSE, flc |-> 0, msg |-> <<"m">>]
Tick(b, dt) == [b EXCEPT !.since = TMin(TMax(cfg.mingap, cfg.maxgap), @ + dt)]

\* ------------------------------------------------------------------ behaviours
CallResult(op, arg, bt, s) ==
  CASE op = "start"   -> Start(bt, s, arg)
    [] op = "advance" -> SetProgress(bt, s, bt.step + arg)
    [] op = "set"     -> SetProgress(bt, s, arg)
    [] op = "display" -> Display(bt, s)
    [] op = "clear"   -> ClearBar(bt, s)
    [] op = "finish"  -> Finish(bt, s)
Ops == {"start", "advance", "set", "display", "clear", "finish"}

Event(op, arg, dt, gap, r, b) ==
  [op |-> op, arg |-> arg, dt |-> dt, gap |-> gap, frames |-> r.frames, ops |-> r.ops, exc |-> "",
   progress |-> b.step, maxsteps |-> b.max, msg |-> b.msg, pprog |-> last.progress, pmax |-> last.maxsteps]

InitWith(c) ==                                               \* c.max0: the maximum given to the constructor
  /\ cfg = c /\ bar = NewBar(TMax(0, c.max0), TMax(c.mingap, c.maxgap))
  /\ sec = [content |-> c.secpre, lines |-> SumRows(c.secpre)]
  /\ term = ApplyOps(TermNew(c.w), LinesOps(c.pre \o c.secpre))
  /\ shown = NoFrame /\ sinceAdv = -1 /\ plog = <<>>
  /\ last = [op |-> "new", arg |-> c.max0, dt |-> 0, gap |-> -1, frames |-> <<>>, ops |-> <<>>, exc |-> "",
             progress |-> 0, maxsteps |-> TMax(0, c.max0), msg |-> <<"m">>, pprog |-> 0, pmax |-> TMax(0, c.max0)]

\* after dt ticks the program calls op(arg)
Call(dt, op, arg) ==
  LET b0  == Tick(bar, dt)
      gap == CapAdd(sinceAdv, dt)
  IN \E r \in {CallResult(op, arg, b0, sec)} :               \* (a singleton: evaluated once, then bound)
       /\ bar' = r.b /\ sec' = r.s
       /\ term' = ApplyOps(term, r.ops)
       /\ shown' = ShownAfter(op, r.frames)
       /\ sinceAdv' = SinceAdvAfter(op, r.frames, dt)
       /\ plog' = plog \o LinesOf(r.frames)
       /\ last' = Event(op, arg, dt, gap, r, r.b)
       /\ UNCHANGED cfg

\* set_format (the format is worked out again at the next display / clear), set_bar_width, character setters:
\* no output; only single-line formats are exchanged for one another
DefaultChars == [bar |-> "", empty |-> "-", prog |-> <<">">>]
Reconfigure(what, fmt, bw, chars) ==
  /\ cfg' = [cfg EXCEPT !.fmt = fmt, !.bw = bw, !.chars = chars]
  /\ bar' = IF what = "fmt" THEN [bar EXCEPT !.fmtset = FALSE] ELSE bar
  /\ last' = [last EXCEPT !.op = what, !.arg = 0, !.dt = 0, !.gap = -1, !.frames = <<>>, !.ops = <<>>,
                          !.pprog = last.progress, !.pmax = last.maxsteps]
  /\ UNCHANGED <<sec, term, shown, sinceAdv, plog>>

SetMessage(m) == /\ bar' = [bar EXCEPT !.msg = m]
                 /\ last' = [last EXCEPT !.op = "msg", !.arg = Len(m), !.dt = 0, !.gap = -1, !.frames = <<>>,
                                         !.ops = <<>>, !.msg = m, !.pprog = last.progress, !.pmax = last.maxsteps]
                 /\ UNCHANGED <<cfg, sec, term, shown, sinceAdv, plog>>
\* (events carry the configuration in force after the call: see MC_ProgressBar!Obs / the recorded "conf" field)

TermOK == WellFormed(term)
=============================================================================
