------------------------- MODULE ProgressBarTrace -------------------------
(* Recorded call sequences of the real ProgressBar (virtual clock) checked against ProgressBar.
   event: [op, arg, dt,        -- "new" | "start" | "advance" | "set" | "display" | "clear" | "finish" | "msg";
                                  argument (start: -1 = no maximum given; msg: unused); ticks since the previous call
           frames,             -- the frames written during the call, projected by the harness:
                                  [ok, cur, hasmax, max, haspct, pct, bar, lines]
           ops,                -- the bytes the call added to the stream, tokenised (engine/termbytes.py)
           exc,                -- "" or the class name of an exception that escaped
           progress, maxsteps, -- get_progress(), get_max_steps() after the call
           msg]                -- the message in force after the call (cells)
   the first event ("new") also carries cfg = [mode, bw, mingap, maxgap, fmt, w, pre, max0] and, as ops, the lines
   the harness put on the stream before the bar was created.
   The terminal, `shown`, `plog`, `sinceAdv` follow the *observed* frames and ops; the P-clauses of ProgressBar are
   evaluated on them after every call.  The A-layer runs alongside on its own state; differences are DRIFT.        *)
EXTENDS ProgressBar, TraceKit
LOCAL INSTANCE SequencesExt

VARIABLES tid, l
tvars == <<vars, tid, l>>
T == Traces[tid]
E == T[l]

TInit == /\ tid \in 1..NTraces /\ l = 1
         /\ LET c == Traces[tid][1].cfg IN
            /\ cfg = c /\ bar = NewBar(TMax(0, c.max0), TMax(c.mingap, c.maxgap))
            /\ sec = [content |-> c.secpre, lines |-> SumRows(c.secpre)]
            /\ term = TermNew(c.w)
            /\ shown = NoFrame /\ sinceAdv = -1 /\ plog = <<>>
            /\ last = [op |-> "none", arg |-> 0, dt |-> 0, gap |-> -1, frames |-> <<>>, ops |-> <<>>, exc |-> "",
                       progress |-> 0, maxsteps |-> TMax(0, c.max0), msg |-> <<"m">>, pprog |-> 0,
                       pmax |-> TMax(0, c.max0)]

Adv == l' = l + 1 /\ tid' = tid
Is(op) == l <= Len(T) /\ E.op = op

NormStep(acc, o) ==
  IF o.k = "sgr" THEN acc
  ELSE IF o.k = "text" /\ acc # <<>> /\ acc[Len(acc)].k = "text" THEN [acc EXCEPT ![Len(acc)].s = @ \o o.s]
  ELSE Append(acc, o)
Norm(ops) == FoldLeft(NormStep, <<>>, ops)

Trimmed(f) == [f EXCEPT !.lines = [k \in 1..Len(f.lines) |-> RTrim(f.lines[k])]]
SameFrames(fs, gs) == /\ Len(fs) = Len(gs)
                      /\ \A k \in 1..Len(fs) : IF cfg.fmt \in Formats THEN Trimmed(fs[k]) = Trimmed(gs[k])
                                               ELSE [fs[k] EXCEPT !.lines = <<>>] = [gs[k] EXCEPT !.lines = <<>>]

\* which violation of a clause this is (discriminates the defects found on the pinned tree from anything else)
Where == cfg.mode
OwnLineKey == IF E.progress = 0 /\ plog # <<>> THEN "second-frame-at-step-0" ELSE "other"
FinishKey == IF Plain /\ E.frames = <<>> THEN "plain-final-frame-skipped" ELSE Where

TStart == /\ l = 1 /\ Is("new") /\ Adv
          /\ term' = ApplyOps(term, E.ops)
          /\ last' = [last EXCEPT !.op = "new", !.ops = E.ops, !.msg = E.msg]
          /\ bar' = [bar EXCEPT !.msg = E.msg]
          /\ UNCHANGED <<cfg, sec, shown, sinceAdv, plog>>
          /\ Check(tid, l, "P.completes", E.exc, E.exc = "")
          /\ Check(tid, l, "H.init", "", OnlyPlain(E.ops) /\ Screen(term') = Visible(FoldAll(cfg.pre \o cfg.secpre, cfg.w)))

\* set_message: not expected to write (A-clause); if an implementation redraws here, the frames count like any other
TMsg == /\ l > 1 /\ Is("msg") /\ Adv
        /\ bar' = [bar EXCEPT !.msg = E.msg]
        /\ term' = ApplyOps(term, E.ops)
        /\ shown' = ShownAfter("msg", E.frames)
        /\ plog' = plog \o LinesOf(E.frames)
        /\ last' = [op |-> "msg", arg |-> 0, dt |-> 0, gap |-> -1, frames |-> E.frames, ops |-> E.ops, exc |-> E.exc,
                    progress |-> E.progress, maxsteps |-> E.maxsteps, msg |-> E.msg,
                    pprog |-> last.progress, pmax |-> last.maxsteps]
        /\ UNCHANGED <<cfg, sec, sinceAdv>>
        /\ Check(tid, l, "P.completes", E.exc, E.exc = "")
        /\ Check(tid, l, "P.quiet", E.op, QuietNothing')
        /\ Check(tid, l, "P.frame.shape", "", FrameShape')
        /\ Check(tid, l, "P.frame.barwidth", "", BarWidthOK')
        /\ Check(tid, l, "P.frame.step", "", StepOK')
        /\ Check(tid, l, "P.frame.percent", "", PercentOK')
        /\ Check(tid, l, "P.ansi.line", Where, AnsiLine')
        /\ Check(tid, l, "P.plain.ownline", "other", PlainOwnLine')
        /\ Note(tid, l, "A.msg.silent", E.ops = <<>> /\ E.frames = <<>>)

\* set_format / set_bar_width / character setters between draws (E.conf = the configuration in force afterwards):
\* not expected to write; whatever is written counts like any other frame
TConf == /\ l > 1 /\ l <= Len(T) /\ E.op \in {"fmt", "bw", "chars"} /\ Adv
         /\ cfg' = [cfg EXCEPT !.fmt = E.conf.fmt, !.bw = E.conf.bw, !.chars = E.conf.chars]
         /\ bar' = IF E.op = "fmt" THEN [bar EXCEPT !.fmtset = FALSE] ELSE bar
         /\ term' = ApplyOps(term, E.ops)
         /\ shown' = ShownAfter(E.op, E.frames)
         /\ plog' = plog \o LinesOf(E.frames)
         /\ last' = [op |-> E.op, arg |-> 0, dt |-> 0, gap |-> -1, frames |-> E.frames, ops |-> E.ops, exc |-> E.exc,
                     progress |-> E.progress, maxsteps |-> E.maxsteps, msg |-> E.msg,
                     pprog |-> last.progress, pmax |-> last.maxsteps]
         /\ UNCHANGED <<sec, sinceAdv>>
         /\ Check(tid, l, "P.completes", E.exc, E.exc = "")
         /\ Check(tid, l, "P.quiet", E.op, QuietNothing')
         /\ Check(tid, l, "P.frame.shape", "", FrameShape')
         /\ Check(tid, l, "P.frame.barwidth", "", BarWidthOK')
         /\ Check(tid, l, "P.frame.step", "", StepOK')
         /\ Check(tid, l, "P.frame.percent", "", PercentOK')
         /\ Check(tid, l, "P.ansi.line", Where, AnsiLine')
         /\ Check(tid, l, "P.plain.ownline", "other", PlainOwnLine')
         /\ Note(tid, l, "A.conf.silent", E.ops = <<>> /\ E.frames = <<>>)

TCall == /\ l > 1 /\ l <= Len(T) /\ E.op \in Ops /\ Adv
         /\ \E r \in {CallResult(E.op, E.arg, Tick(bar, E.dt), sec)} :
              /\ bar' = r.b /\ sec' = r.s
              /\ term' = ApplyOps(term, E.ops)
              /\ shown' = ShownAfter(E.op, E.frames)
              /\ sinceAdv' = SinceAdvAfter(E.op, E.frames, E.dt)
              /\ plog' = plog \o LinesOf(E.frames)
              /\ last' = [op |-> E.op, arg |-> E.arg, dt |-> E.dt, gap |-> CapAdd(sinceAdv, E.dt), frames |-> E.frames,
                          ops |-> E.ops, exc |-> E.exc, progress |-> E.progress, maxsteps |-> E.maxsteps, msg |-> E.msg,
                          pprog |-> last.progress, pmax |-> last.maxsteps]
              /\ UNCHANGED cfg
              /\ Check(tid, l, "P.completes", E.exc, E.exc = "")
              /\ Check(tid, l, "P.quiet", E.op, QuietNothing')
              /\ IF Plain THEN Check(tid, l, "P.plain.nocontrol", "", OnlyPlain(E.ops))
                 ELSE Check(tid, l, "H.ops.known", "", AllKnown(E.ops))
              /\ Check(tid, l, "P.frame.shape", "", FrameShape')
              /\ Check(tid, l, "P.frame.barwidth", "", BarWidthOK')
              /\ Check(tid, l, "P.frame.step", "", StepOK')
              /\ Check(tid, l, "P.frame.percent", "", PercentOK')
              /\ Check(tid, l, "P.throttle", "", ThrottleOK')
              /\ Check(tid, l, "P.max.draws", "", MaxDraws')
              /\ Check(tid, l, "P.finish", FinishKey, FinishOK')
              /\ Check(tid, l, "P.finish", "progress-taken-back", FinishEnds')
              /\ Check(tid, l, "P.ansi.line", Where, AnsiLine')
              /\ Check(tid, l, "P.plain.ownline", OwnLineKey, PlainOwnLine')
              /\ Note(tid, l, "A.draws", Len(E.frames) = Len(r.frames))
              /\ Note(tid, l, "A.progress", E.progress = r.b.step /\ E.maxsteps = r.b.max)
              /\ Note(tid, l, "A.frame", SameFrames(E.frames, r.frames))
              /\ Note(tid, l, "A.ops", cfg.fmt \in Formats => Norm(E.ops) = Norm(r.ops))

TDone == /\ l = Len(T) + 1 /\ l' = l + 1 /\ tid' = tid /\ UNCHANGED vars /\ Accept(tid)

TNext == TStart \/ TMsg \/ TConf \/ TCall \/ TDone
TSpec == TInit /\ [][TNext]_tvars
=============================================================================
