SPECIFICATION HSpec
CONSTANTS
  PercentExact = TRUE
  NewlineByWrites = TRUE
  MoveUpAfterFirst = TRUE
  FinishShowsStep = TRUE
  ClearCountsRows = TRUE
  MCModes <- AllModes
  MCWidths <- W1
  MCGaps <- GapOn
  MCFormats <- FmtNormal
  MCMax <- Max2
  Ticks <- TicksQ
  StartArgs <- StartOne
  AdvArgs <- AdvQ
  SetArgs <- SetQ
  Msgs <- NoMsgs
  Depth = 4
VIEW HView
PROPERTY PFrameShape
PROPERTY PBarWidth
PROPERTY PStep
PROPERTY PPercent
PROPERTY PThrottle
PROPERTY PMaxDraws
PROPERTY PFinish
INVARIANT AnsiLine
INVARIANT PlainOwnLine
PROPERTY PQuiet
INVARIANT TermOK
PROPERTY PPlainOps
INVARIANT Emit
