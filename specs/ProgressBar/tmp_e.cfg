SPECIFICATION HSpec
CONSTANTS
  PercentExact = TRUE
  NewlineByWrites = TRUE
  MoveUpAfterFirst = TRUE
  FinishShowsStep = TRUE
  ClearCountsRows = TRUE
  MCModes <- AllModes
  MCWidths <- W3
  MCGaps <- Gaps2
  MCFormats <- FmtAll
  MCMax <- Max4
  Ticks <- TicksQ
  StartArgs <- StartQ
  AdvArgs <- AdvQ
  SetArgs <- SetQ
  Msgs <- MsgsQ
  Depth = 3
VIEW HView
PROPERTY PFrameShape
PROPERTY PBarWidth
PROPERTY PStep
PROPERTY PPercent
PROPERTY PThrottle
PROPERTY PMaxDraws
PROPERTY PFinish
INVARIANT AnsiLine
INVARIANT PlainOwnLine
PROPERTY PQuiet
INVARIANT TermOK
PROPERTY PPlainOps
INVARIANT Emit
