SPECIFICATION HSpec
CONSTANTS
  PercentExact = TRUE
  NewlineByWrites = TRUE
  MoveUpAfterFirst = FALSE
  FinishDrawsNoMax = TRUE
  ClearCountsRows = TRUE
  MCModes <- ModesAPS
  MCWidths <- W1
  MCGaps <- GapOn
  MCFormats <- FmtNormal
  MCMax <- Max2
  Ticks <- TicksQ
  StartArgs <- StartOne
  AdvArgs <- AdvOne
  SetArgs <- SetTwo
  Msgs <- NoMsgs
  MCFreq = 1
  Switch <- NoSwitch
  Rewidth <- NoSwitch
  Charsets <- NoSwitch
  MCSecPre <- NoSecPre
  Depth = 4
VIEW HView
PROPERTY PFrameShape
PROPERTY PBarWidth
PROPERTY PStep
PROPERTY PPercent
PROPERTY PThrottle
PROPERTY PMaxDraws
PROPERTY PFinish
PROPERTY PQuiet
PROPERTY PPlainOps
INVARIANT AnsiLine
INVARIANT PlainOwnLine
INVARIANT TermOK
INVARIANT Emit
