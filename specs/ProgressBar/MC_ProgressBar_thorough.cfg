SPECIFICATION HSpec
CONSTANTS
  PercentExact = TRUE
  NewlineByWrites = TRUE
  MoveUpAfterFirst = FALSE
  FinishDrawsNoMax = TRUE
  ClearCountsRows = TRUE
  MCModes <- AllModes
  MCWidths <- W1
  MCGaps <- Gaps2
  MCFormats <- FmtNormal
  MCMax <- Max2
  Ticks <- TicksQ
  StartArgs <- StartQ
  AdvArgs <- AdvQ
  SetArgs <- SetQ
  Msgs <- NoMsgs
  MCFreq = 1
  Switch <- NoSwitch
  Rewidth <- NoSwitch
  Charsets <- NoSwitch
  MCSecPre <- NoSecPre
  Depth = 6
VIEW HView
PROPERTY PFrameShape
PROPERTY PBarWidth
PROPERTY PStep
PROPERTY PPercent
PROPERTY PThrottle
PROPERTY PMaxDraws
PROPERTY PFinish
PROPERTY PQuiet
PROPERTY PPlainOps
INVARIANT AnsiLine
INVARIANT PlainOwnLine
INVARIANT TermOK
