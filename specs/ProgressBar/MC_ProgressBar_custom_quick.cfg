SPECIFICATION HSpec
CONSTANTS
  PercentExact = TRUE
  NewlineByWrites = TRUE
  MoveUpAfterFirst = FALSE
  FinishDrawsNoMax = TRUE
  ClearCountsRows = TRUE
  MCModes <- ModesAPS
  MCWidths <- W1
  MCGaps <- GapOn
  MCFormats <- FmtCustom
  MCMax <- MaxOne
  Ticks <- TicksQ
  StartArgs <- StartQ
  AdvArgs <- AdvQ
  SetArgs <- SetQ
  Msgs <- MsgsQ
  MCFreq = 2
  Switch <- SwitchQ
  Rewidth <- NoSwitch
  Charsets <- CharsQ
  MCSecPre <- NoSecPre
  Depth = 4
VIEW HView
PROPERTY PFrameShape
PROPERTY PBarWidth
PROPERTY PStep
PROPERTY PPercent
PROPERTY PThrottle
PROPERTY PMaxDraws
PROPERTY PFinish
PROPERTY PQuiet
PROPERTY PPlainOps
INVARIANT AnsiLine
INVARIANT PlainOwnLine
INVARIANT TermOK
