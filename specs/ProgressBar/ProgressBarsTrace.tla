------------------------- MODULE ProgressBarsTrace -------------------------
(* Several progress bars, each on its own section of ONE ANSI output, called in any interleaving (recorded runs).
   Only the P-clause that concerns their living together is judged here (everything about a single bar is judged by
   ProgressBarTrace): after every call the screen shows what was there before, then - bar by bar, in the order in which
   the sections were created - exactly the latest frame of every bar (nothing for a bar that is cleared or has not
   drawn yet).  Blank rows are not counted (a cleared bar keeps an empty row).
   event: [op, b, frames, ops, exc]   b = the bar called (1..n); frames / ops as in ProgressBarTrace
   the first event ("init") carries n (number of bars), w (COLUMNS), pre (the lines above) and their ops.           *)
EXTENDS Naturals, Sequences, Terminal, TraceKit
LOCAL INSTANCE SequencesExt

VARIABLES tid, l, term, shown
tvars == <<tid, l, term, shown>>
T == Traces[tid]
E == T[l]
Head1 == T[1]

TInit == /\ tid \in 1..NTraces /\ l = 1
         /\ term = TermNew(Traces[tid][1].w)
         /\ shown = [k \in 1..Traces[tid][1].n |-> <<>>]
Adv == l <= Len(T) /\ l' = l + 1 /\ tid' = tid

NonBlank(rows) == SelectSeq(rows, LAMBDA r : r # <<>>)
Stacked(sh) == FoldLeft(LAMBDA acc, x : acc \o x, <<>>, sh)
LinesOK(t, sh) == NonBlank(Screen(t)) = NonBlank(Visible(FoldAll(Head1.pre \o Stacked(sh), Head1.w)))

TStart == /\ l = 1 /\ Adv /\ E.op = "init"
          /\ term' = ApplyOps(term, E.ops) /\ UNCHANGED shown
          /\ Check(tid, l, "P.completes", E.exc, E.exc = "")
          /\ Check(tid, l, "H.init", "", OnlyPlain(E.ops) /\ LinesOK(term', shown))

TCall == /\ l > 1 /\ Adv
         /\ term' = ApplyOps(term, E.ops)
         /\ shown' = [shown EXCEPT ![E.b] = IF E.frames # <<>> THEN E.frames[Len(E.frames)].lines
                                            ELSE IF E.op = "clear" THEN <<>> ELSE @]
         /\ Check(tid, l, "P.completes", E.exc, E.exc = "")
         /\ Check(tid, l, "H.ops.known", "", AllKnown(E.ops))
         /\ Check(tid, l, "P.frame.shape", "", \A k \in 1..Len(E.frames) : E.frames[k].ok)
         /\ Check(tid, l, "P.ansi.line", "several-bars", LinesOK(term', shown'))

TDone == /\ l = Len(T) + 1 /\ l' = l + 1 /\ tid' = tid /\ UNCHANGED <<term, shown>> /\ Accept(tid)
TNext == TStart \/ TCall \/ TDone
TSpec == TInit /\ [][TNext]_tvars
=============================================================================
