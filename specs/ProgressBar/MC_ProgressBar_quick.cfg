SPECIFICATION HSpec
CONSTANTS
  PercentExact = TRUE
  NewlineByWrites = TRUE
  MoveUpAfterFirst = TRUE
  FinishShowsStep = TRUE
  ClearCountsRows = TRUE
  MCModes <- AllModes
  MCWidths <- W1
  MCGaps <- Gaps2
  MCFormats <- FmtNormal
  MCMax <- Max2
  Ticks <- TicksQ
  StartArgs <- StartQ
  AdvArgs <- AdvQ
  SetArgs <- SetQ
  Msgs <- NoMsgs
  Depth = 5
VIEW HView
INVARIANT FrameShape
INVARIANT BarWidthOK
INVARIANT StepOK
INVARIANT PercentOK
INVARIANT ThrottleOK
INVARIANT MaxDraws
INVARIANT FinishOK
INVARIANT AnsiLine
INVARIANT PlainOwnLine
INVARIANT QuietNothing
INVARIANT TermOK
