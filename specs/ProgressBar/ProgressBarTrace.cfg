SPECIFICATION TSpec
CONSTANTS
  PercentExact = TRUE
  NewlineByWrites = TRUE
  MoveUpAfterFirst = TRUE
  FinishShowsStep = TRUE
  ClearCountsRows = TRUE
INVARIANT TermOK
