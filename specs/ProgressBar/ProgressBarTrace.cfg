SPECIFICATION TSpec
CONSTANTS
  PercentExact = TRUE
  NewlineByWrites = TRUE
  MoveUpAfterFirst = FALSE
  FinishDrawsNoMax = TRUE
  ClearCountsRows = TRUE
INVARIANT TermOK
