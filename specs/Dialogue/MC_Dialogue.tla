---------------------------- MODULE MC_Dialogue ----------------------------
(* C18: every dialogue over small pools.  One initial state per (question, script); the behaviour is
   deterministic (out-degree 1).  TLC checks the P-clauses on the model's own outcome, termination under weak
   fairness, and prints every finished dialogue for replay on the real classes.                        *)
EXTENDS Dialogue, Json

CONSTANTS Kinds,        \* subset of {"choice", "plain", "confirm"}
          MaxChoices,   \* choice lists of 1..MaxChoices entries (with repetition)
          NPool,        \* ... drawn from the first NPool entries of ChoicePool
          MaxLines,     \* scripts of 0..MaxLines answers
          NAnswers,     \* ... drawn from the first NAnswers entries of AnswerPool
          Attempts,     \* set of attempt limits (0 = unlimited)
          NDefaults,    \* defaults 0..NDefaults of DefaultPool (0 = no default)
          Inter,        \* set of values of `interactive`
          Multis,       \* set of values of `multi` for choice questions
          Muts,         \* what the caller did to its choice list between building the question and asking it:
                        \*   0 nothing, 1 appended the last choice, 2 replaced the first choice, 3 removed a trailing one
          DefInts,      \* {FALSE} or {FALSE, TRUE}: a single-select index default may also be given as an int
          RouteIds,     \* which of the routes by which the I/O is prepared (see RouteOf)
          Reconfs,      \* what the caller does before asking the object again: 0 nothing, 2 set_multi_select(not multi),
                        \* 3 io.set_input(<one line>) - a new, shorter script on the SAME I/O, 4 io.clear_input(),
                        \* 5 a new StreamInputStream / IO around the same raw stream (route 9 only)
          Rounds        \* 1: one dialogue;  2: the same question OBJECT is asked a second time on the rest of the input

VARIABLES idx,          \* the indices the initial state was built from (constant along a behaviour)
          route,        \* how the I/O was prepared (constant along a behaviour)
          round,        \* 1 or 2
          first         \* the outcome of the first dialogue (round 2)
mvars == <<vars, idx, route, round, first>>

ChoicePool == << <<"a">>, <<"1">>, <<"x", " ", "y">>, <<"A">>, <<"b">>, <<"a", ".", "b">> >>
AnswerPool == << <<>>, <<"0">>, <<"1">>, <<"a">>, <<"z", "z">>, <<"-", "1">>, <<"9">>, <<"a", ",", "b">>,
                 <<"0", ",", " ", "1">>, <<"x", " ", "y">>, <<" ", "a", "\t">>, <<"A">>,
                 <<"<", "/", "i", "n", "f", "o", ">">>, <<"+", "1">>, <<"0", "1">>, <<"b", ",", "x", " ", "y">>,
                 <<"a", ",", ",", "b">>, <<"a", ".", "b">>, <<"a", CR>> >>
\* defaults of a choice question are index texts
DefaultPool == << <<"0">>, <<"1">>, <<"0", ",", "1">>, <<" ", "0", " ", ",", " ", "1", " ">> >>
DefOK(d, mu, n) == \/ d = 0 \/ d = 1
                   \/ (d = 2 /\ n >= 2)
                   \/ (d \in {3, 4} /\ mu /\ n >= 2)

\* kind "plain": a Question whose validator accepts the members of `choices`; its default is a value
PlainDefaults == << <<"a">>, <<"z", "z">>, <<>> >>          \* the last one: default "" (falsy, but a default)
\* confirmations
Patterns == << [ci |-> TRUE,  alts |-> << <<"y">> >>, whole |-> FALSE, anch |-> TRUE],                          \* (?i)^y   (the default)
               [ci |-> TRUE,  alts |-> << <<"j">>, <<"y">> >>, whole |-> FALSE, anch |-> TRUE],                 \* (?i)^(j|y)
               [ci |-> FALSE, alts |-> << <<"y", "e", "s">>, <<"o", "u", "i">> >>, whole |-> TRUE, anch |-> TRUE],  \* ^(yes|oui)$
               [ci |-> FALSE, alts |-> << <<"y">> >>, whole |-> FALSE, anch |-> FALSE],                         \* (y)
               [ci |-> TRUE,  alts |-> << <<"o", "k">>, <<"1">> >>, whole |-> FALSE, anch |-> FALSE],           \* (?i)(ok|1)
               [ci |-> FALSE, alts |-> << <<"y", "e", "s">>, <<"y", "s">> >>, whole |-> TRUE, anch |-> FALSE] >>  \* (yes|ys)$
ConfirmAnswers == << <<>>, <<"y">>, <<"Y">>, <<"y", "e", "s">>, <<"n">>, <<"n", "o">>, <<"j">>, <<" ", "y", " ">>,
                     <<"n", "y">>, <<"o", "u", "i">>, <<"y", "e">>, <<"Y", "E", "S">>, <<" ">>, <<"y", "e", "s", "s">>,
                     <<"n", "a", "y">>, <<"o", "h", " ", "y", "e", "s">>, <<"n", "o", "t", " ", "o", "k">>, <<"O", "K">>,
                     <<"0", "1">>, <<"1", "0">>, <<"y", "s">>, <<"y", CR>>, <<CR>> >>
NoPat == Patterns[1]

Q(kind, cs, bs, mu, hasDef, def, defB, att, inter, val, pat) ==
  [kind |-> kind, choices |-> cs, built |-> bs, multi |-> mu, hasDef |-> hasDef, def |-> def, defInt |-> FALSE, defB |-> defB, maxAtt |-> att,
   interactive |-> inter, validator |-> val, pat |-> pat]

First0 == [out |-> NoOut, r |-> 0, n |-> 0, e |-> 0, w |-> 0, rc |-> 0]
\* the list the question was built with, given the list at the time of asking and what the caller did in between
Gone == <<"g", "o", "n", "e">>
BuiltOf(cs, mt) == CASE mt = 0 -> cs
                     [] mt = 1 -> SubSeq(cs, 1, Len(cs) - 1)
                     [] mt = 2 -> <<Gone>> \o Tail(cs)
                     [] mt = 3 -> Append(cs, Gone)

InitChoice ==
  /\ "choice" \in Kinds
  /\ \E n \in 1..MaxChoices : \E ci \in [1..n -> 1..NPool] : \E m \in 0..MaxLines : \E si \in [1..m -> 1..NAnswers] :
     \E att \in Attempts, mu \in Multis, d \in 0..NDefaults, inter \in Inter, mt \in Muts, di \in DefInts :
       /\ DefOK(d, mu, n) /\ (~inter => (m <= 1 /\ att = 0)) /\ (mt = 1 => n >= 2)
       /\ (di => (~mu /\ d \in {1, 2}))                \* an int default: one index, single-select
       /\ Start([Q("choice", [k \in 1..n |-> ChoicePool[ci[k]]], BuiltOf([k \in 1..n |-> ChoicePool[ci[k]]], mt), mu, d > 0,
                    IF d > 0 THEN DefaultPool[d] ELSE <<>>, FALSE, att, inter, TRUE, NoPat) EXCEPT !.defInt = di],
                [k \in 1..m |-> AnswerPool[si[k]]], 0)
       /\ idx = [c |-> ci, s |-> si, d |-> d, p |-> 0]
       /\ round = 1 /\ first = First0

InitPlain ==
  /\ "plain" \in Kinds
  /\ \E n \in 1..MaxChoices : \E ci \in [1..n -> 1..NPool] : \E m \in 0..MaxLines : \E si \in [1..m -> 1..NAnswers] :
     \E att \in Attempts, val \in BOOLEAN, d \in 0..3, inter \in Inter :
       /\ (~inter => (m <= 1 /\ att = 0)) /\ (~val => (att = 0 /\ n = 1 /\ m <= 1))
       /\ Start(Q("plain", [k \in 1..n |-> ChoicePool[ci[k]]], [k \in 1..n |-> ChoicePool[ci[k]]], FALSE, d > 0, IF d > 0 THEN PlainDefaults[d] ELSE <<>>,
                  FALSE, att, inter, val, NoPat),
                [k \in 1..m |-> AnswerPool[si[k]]], 0)
       /\ idx = [c |-> ci, s |-> si, d |-> d, p |-> 0]
       /\ round = 1 /\ first = First0

InitConfirm ==
  /\ "confirm" \in Kinds
  /\ \E m \in 0..1 : \E si \in [1..m -> 1..Len(ConfirmAnswers)] : \E p \in 1..Len(Patterns), db \in BOOLEAN, inter \in Inter :
       /\ Start(Q("confirm", <<>>, <<>>, FALSE, TRUE, <<>>, db, 0, inter, FALSE, Patterns[p]),
                [k \in 1..m |-> ConfirmAnswers[si[k]]], 0)
       /\ idx = [c |-> <<>>, s |-> si, d |-> 0, p |-> p]
       /\ round = 1 /\ first = First0

\* the routes by which the I/O of the dialogue is prepared (ls = the script, b = interactive)
Op0(op, ls, b) == [op |-> op, ls |-> ls, b |-> b]
RouteOf(rid, ls, b) ==
  LET h == IF ls = <<>> THEN <<>> ELSE <<Head(ls)>>
      t == IF ls = <<>> THEN <<>> ELSE Tail(ls)
  IN CASE rid = 1 -> <<Op0("ctor", ls, FALSE), Op0("io_inter", <<>>, b)>>                                     \* BufferedIO(script); io.set_interactive
       [] rid = 2 -> <<Op0("ctor", <<>>, FALSE), Op0("set_input", ls, FALSE), Op0("io_inter", <<>>, b)>>        \* set_input, then the switch
       [] rid = 3 -> <<Op0("ctor", <<>>, FALSE), Op0("io_inter", <<>>, b), Op0("set_input", ls, FALSE)>>        \* the switch, then set_input
       [] rid = 4 -> <<Op0("ctor", <<>>, FALSE), Op0("input_inter", <<>>, b), Op0("stream_set", ls, FALSE)>>    \* io.input.set_interactive, stream.set
       [] rid = 5 -> <<Op0("ctor", h, FALSE), Op0("io_inter", <<>>, b), Op0("append_input", t, FALSE)>>         \* the switch between two loads
       [] rid = 6 -> <<Op0("ctor", h, FALSE), Op0("stream_append", t, FALSE), Op0("input_inter", <<>>, b)>>
       [] rid = 7 -> <<Op0("ctor", ls, FALSE), Op0("io_inter", <<>>, ~b), Op0("clear_input", <<>>, FALSE),      \* switched twice, reloaded
                       Op0("input_inter", <<>>, b), Op0("set_input", ls, FALSE)>>
       [] rid = 8 -> <<Op0("ctor", ls, FALSE)>>                                                                \* nothing said: interactive
       [] rid = 9 -> <<Op0("ctor_stream", ls, FALSE), Op0("io_inter", <<>>, b)>>                               \* IO over a raw io.BytesIO

Init == (InitChoice \/ InitPlain \/ InitConfirm)
        /\ \E rid \in RouteIds : LET r == RouteOf(rid, script, q.interactive)
                                  IN /\ (rid = 9 => (Rounds = 2 /\ q.built = q.choices /\ q.interactive))
                                     /\ (rid \notin {1, 9} => (~q.interactive \/ (Len(script) <= 1 /\ q.maxAtt <= 1 /\ ~q.multi /\ ~q.hasDef)))
                                     /\ route = r /\ EnvScript(r) = script /\ EnvInter(r) = q.interactive
\* the same question object is asked again where the first dialogue stopped reading
Again == /\ pc = "done" /\ round < Rounds /\ round' = round + 1
         /\ \E rc \in Reconfs :
              /\ (rc = 2 => q.kind = "choice") /\ (rc \in {2, 3, 4} => q.built = q.choices)
              /\ (rc = 5) = (route[1].op = "ctor_stream")
              /\ first' = [out |-> out, r |-> obs.reads, n |-> pos - start, e |-> obs.errs, w |-> obs.prompts, rc |-> rc]
              /\ IF rc = 2 THEN ReAskAs([q EXCEPT !.multi = ~q.multi], script, pos)
                 ELSE IF rc = 3 THEN ReAsk(<<AnswerPool[5]>>, 0)        \* the input is replaced: reading starts at its first line
                 ELSE IF rc = 4 THEN ReAsk(<<>>, 0)
                 ELSE ReAsk(script, pos)
         /\ UNCHANGED <<idx, route>>
MNext == (Next /\ UNCHANGED <<idx, route, round, first>>) \/ Again
CNext == CoreNext /\ UNCHANGED <<idx, route, round, first>>
Spec == Init /\ [][MNext]_mvars /\ WF_mvars(MNext)
\* for the large enumerations (safety + emission only; liveness is checked on the smaller configurations)
SafetySpec == Init /\ [][MNext]_mvars
\* the algorithm alone, without the observer's counters: finite also when the dialogue spins
CoreSpec == Init /\ [][CNext]_mvars /\ WF_mvars(CNext)

\* ------------------------------------------------------------------ the property on the model's own outcome
O == ModelObs
Fin == pc = "done"
Last == Fin /\ round = Rounds
A_object         == ObjectIntact
AllEnd           == <>Last          \* every dialogue of the behaviour ends
P_terminates     == Fin => PTerminates(O)
P_noninteractive == Fin => PNonInteractive(q, O)
P_member         == Fin => PMember(q, O)
P_accept         == Fin => PAccept(q, script, start, O)
P_reject         == Fin => PReject(q, script, start, O)
P_attempts       == Fin => PAttempts(q, O)
P_errors         == Fin => PErrors(q, O)
P_eof            == Fin => PEof(q, O)
P_typed          == Fin => PTyped(script, start, O)
P_confirm        == Fin => PConfirm(q, script, start, O)
H_sane           == Fin => HSane(script, start, O)
\* A-level: one prompt per read, nothing happens after the outcome is fixed
A_prompts        == Fin => obs.prompts = obs.reads

\* ------------------------------------------------------------------ emission for replay
RECURSIVE Flat(_)
Flat(s) == IF s = <<>> THEN "" ELSE s[1] \o Flat(Tail(s))
FlatAll(ss) == [k \in 1..Len(ss) |-> Flat(ss[k])]
Tup(f) == [k \in 1..Len(f) |-> f[k]]

ASSUME PrintT(ToJson([pools |-> TRUE, choices |-> FlatAll(ChoicePool), answers |-> FlatAll(AnswerPool),
                      defaults |-> FlatAll(DefaultPool), plainDefaults |-> FlatAll(PlainDefaults),
                      confirmAnswers |-> FlatAll(ConfirmAnswers),
                      patterns |-> [k \in 1..Len(Patterns) |->
                                      [ci |-> Patterns[k].ci, whole |-> Patterns[k].whole, alts |-> FlatAll(Patterns[k].alts)]]]))

OutJ(o) == [ok |-> o.kind, x |-> o.cls, t |-> o.val.t, vs |-> Flat(o.val.s), vl |-> FlatAll(o.val.l), vb |-> o.val.b]
RouteJ == [k \in 1..Len(route) |-> [op |-> route[k].op, ls |-> FlatAll(route[k].ls), b |-> route[k].b]]
Emit == Last => PrintT(ToJson([kind |-> q.kind, b |-> FlatAll(q.built), rounds |-> Rounds, route |-> RouteJ, s2 |-> FlatAll(script),
                              f |-> [o |-> OutJ(first.out), r |-> first.r, n |-> first.n, e |-> first.e, w |-> first.w, rc |-> first.rc],
                              c |-> idx.c, s |-> idx.s, d |-> idx.d, p |-> idx.p, m |-> q.multi,
                              a |-> q.maxAtt, i |-> q.interactive, v |-> q.validator, db |-> q.defB, di |-> q.defInt,
                              ok |-> out.kind, x |-> out.cls, t |-> out.val.t, vs |-> Flat(out.val.s),
                              vl |-> FlatAll(out.val.l), vb |-> out.val.b,
                              r |-> obs.reads, n |-> pos - start, e |-> obs.errs, w |-> obs.prompts]))
=============================================================================
