SPECIFICATION Spec
CONSTANTS
  SnapshotChoices = TRUE
  RetryOnAbort = FALSE
  Kinds = {"choice"}
  MaxChoices = 2
  NPool = 2
  MaxLines = 3
  NAnswers = 5
  Attempts = {0, 2}
  NDefaults = 0
  Inter = {TRUE}
  Multis = {FALSE}
  Muts = {0, 1, 2, 3}
  DefInts = {FALSE}
  RouteIds = {1}
  Reconfs = {0}
  Rounds = 1
INVARIANT TypeOK
INVARIANT H_sane
INVARIANT P_terminates
INVARIANT P_noninteractive
INVARIANT P_member
INVARIANT P_accept
INVARIANT P_reject
INVARIANT P_attempts
INVARIANT P_errors
INVARIANT P_eof
INVARIANT P_typed
INVARIANT P_confirm
INVARIANT A_prompts
INVARIANT A_object
