------------------------------ MODULE Dialogue ------------------------------
(* clikit.ui.components.Question / ChoiceQuestion / ConfirmationQuestion  (property C18)

   One dialogue = one call of Question.ask(io) on an input that holds `script` (typed lines) followed by
   end of input; reading starts at line `start` (several questions may be asked on one input).

   A-layer: the steps of ask -> _validate_attempts -> _do_ask -> _read_from_input -> validator, one action
            per loop head / prompt / read / validation / retry, and SelectChoiceValidator.validate as the
            operator ChoiceValidate.  The A-layer is the REPAIRED algorithm (see docs/notes_C18.md):
              - end of input ends the dialogue (RetryOnAbort = FALSE); RetryOnAbort = TRUE is the retry loop
                of the pinned tree, kept so that TLC can exhibit its lasso;
              - multi-select answers are split at commas and trimmed (no removal of inner spaces, no
                restriction of the characters of a value).
   P-layer: operators over an *observation* o = [kind, cls, val, reads, consumed, errs, prompts, outBytes,
            errBytes] of one dialogue - what the property statement says, and nothing about how it is computed.
            They are applied to the model's own outcome (invariants of MC_Dialogue) and to recorded
            executions of the real classes (DialogueTrace).

   Text is a sequence of 1-character strings.                                                          *)
EXTENDS Integers, Sequences, FiniteSets, TLC

CONSTANTS RetryOnAbort,    \* FALSE: repaired loop;  TRUE: `except Exception` also swallows the abort at end of input
          SnapshotChoices  \* FALSE: the validator works on the question's live choice list (the code);
                           \* TRUE: on the list as it was when the question was built (kept so that TLC can show what breaks)

VARIABLES q,        \* the question [kind, choices, built, multi, hasDef, def, defB, maxAtt, interactive, validator, pat]
                    \*   choices = the caller's list at the time of asking, built = the same list when the question
                    \*   object was constructed (the question keeps a reference: the caller may change it in between)
          objAtt,   \* A: the attempt limit stored in the question OBJECT (survives from one ask to the next)
          script,   \* typed lines; end of input follows
          start,    \* lines consumed before this dialogue
          pos,      \* lines consumed so far
          left,     \* A: remaining attempts (Unl = unlimited)
          pend,     \* A: class of the error that is waiting to be printed / raised, or "none"
          cur,      \* A: the answer under validation (trimmed, default applied)
          pc,       \* "new" "ask" "head" "prompt" "read" "validate" "normalize" "retry" "done"
          out,      \* outcome [kind: "none"|"ret"|"exc", cls, val]
          obs       \* what an observer of the streams counts: [reads, errs, prompts]
core == <<q, objAtt, script, start, pos, left, pend, cur, pc, out>>
vars == <<q, objAtt, script, start, pos, left, pend, cur, pc, out, obs>>

Unl == -1

\* ------------------------------------------------------------------ values (a tagged union, as in the JSON events)
VStr(s)  == [t |-> "str",  s |-> s,    l |-> <<>>, b |-> FALSE]
VList(l) == [t |-> "list", s |-> <<>>, l |-> l,    b |-> FALSE]
VBool(b) == [t |-> "bool", s |-> <<>>, l |-> <<>>, b |-> b]
VNone    == [t |-> "none", s |-> <<>>, l |-> <<>>, b |-> FALSE]

\* ------------------------------------------------------------------ text
CR == "~"                                           \* stands for the carriage return character
WS == {" ", "\t", CR}                               \* what str.strip() / bytes.strip() remove (CRLF input lines)
Digits == {"0", "1", "2", "3", "4", "5", "6", "7", "8", "9"}
DigitVal(ch) == CASE ch = "0" -> 0 [] ch = "1" -> 1 [] ch = "2" -> 2 [] ch = "3" -> 3 [] ch = "4" -> 4
                  [] ch = "5" -> 5 [] ch = "6" -> 6 [] ch = "7" -> 7 [] ch = "8" -> 8 [] ch = "9" -> 9
UpperS == <<"A", "B", "C", "D", "E", "F", "G", "H", "I", "J", "K", "L", "M",
            "N", "O", "P", "Q", "R", "S", "T", "U", "V", "W", "X", "Y", "Z">>
LowerS == <<"a", "b", "c", "d", "e", "f", "g", "h", "i", "j", "k", "l", "m",
            "n", "o", "p", "q", "r", "s", "t", "u", "v", "w", "x", "y", "z">>
ToLower(ch) == IF \E k \in 1..26 : UpperS[k] = ch THEN LowerS[CHOOSE k \in 1..26 : UpperS[k] = ch] ELSE ch
Range(f) == {f[k] : k \in DOMAIN f}

RECURSIVE LStrip(_)
LStrip(s) == IF s # <<>> /\ Head(s) \in WS THEN LStrip(Tail(s)) ELSE s
RECURSIVE RStrip(_)
RStrip(s) == IF s # <<>> /\ s[Len(s)] \in WS THEN RStrip(SubSeq(s, 1, Len(s) - 1)) ELSE s
Strip(s) == RStrip(LStrip(s))                       \* str.strip()
RECURSIVE StripSp(_)                                \* blanks (SP only) at both ends
StripSp(s) == IF s # <<>> /\ Head(s) = " " THEN StripSp(Tail(s))
              ELSE IF s # <<>> /\ s[Len(s)] = " " THEN StripSp(SubSeq(s, 1, Len(s) - 1)) ELSE s

RECURSIVE SplitC(_, _)
SplitC(s, acc) == IF s = <<>> THEN <<acc>>
                  ELSE IF Head(s) = "," THEN <<acc>> \o SplitC(Tail(s), <<>>)
                  ELSE SplitC(Tail(s), Append(acc, Head(s)))
Parts(s) == SplitC(s, <<>>)                         \* str.split(","):  "a,,b" -> a, "", b

RECURSIVE NatOf(_)
NatOf(d) == IF d = <<>> THEN 0 ELSE 10 * NatOf(SubSeq(d, 1, Len(d) - 1)) + DigitVal(d[Len(d)])
Big == 100000000                                    \* stands for every number of more than 8 digits
NatCap(d) == IF Len(d) > 8 THEN Big ELSE NatOf(d)

\* int(text) of Python restricted to ASCII: surrounding blanks, one sign, digits with single underscores between
DigitsUS(b) == /\ b # <<>> /\ b[1] \in Digits /\ b[Len(b)] \in Digits
               /\ \A k \in 1..Len(b) : b[k] \in Digits \cup {"_"}
               /\ \A k \in 1..(Len(b) - 1) : ~(b[k] = "_" /\ b[k + 1] = "_")
PyInt(t) == LET u == Strip(t)
                sg == u # <<>> /\ u[1] \in {"+", "-"}
                body == IF sg THEN Tail(u) ELSE u
                d == SelectSeq(body, LAMBDA ch : ch # "_")
            IN IF DigitsUS(body) THEN [ok |-> TRUE, v |-> (IF sg /\ u[1] = "-" THEN -1 ELSE 1) * NatCap(d)]
               ELSE [ok |-> FALSE, v |-> 0]

LowerOf(t) == [k \in 1..Len(t) |-> ToLower(t[k])]
IsPrefix(a, u) == Len(a) <= Len(u) /\ SubSeq(u, 1, Len(a)) = a
\* a confirmation pattern [ci, alts, whole, anch] stands for the regex  (?i)? ^?(alt|alt..) $?   (alts lower-case if ci).
\* "matching its pattern" is matching at the START of the text, as re.match does - with or without a "^" in the
\* pattern (anch says whether the driver writes one): text that holds the pattern only later does not match.
Match(pat, t) == LET u == IF pat.ci THEN LowerOf(t) ELSE t
                 IN \E j \in 1..Len(pat.alts) : IF pat.whole THEN u = pat.alts[j] ELSE IsPrefix(pat.alts[j], u)

Count(cs, e) == Cardinality({k \in 1..Len(cs) : cs[k] = e})

\* ------------------------------------------------------------------ documented input handling (shared by P and A)
\* the default: a Boolean for a confirmation; for the others a text (for a choice question the text of an index)
\* A single-select choice question may get its default as an int (ChoiceQuestion(q, heroes, 1)): defInt; the value is then
\* [t "int", s = its decimal text].  It is the default as configured (what a non-interactive ask returns); as an answer
\* it denotes what its text denotes (the validator turns ints into str): Text(v).
VInt(s) == [t |-> "int", s |-> s, l |-> <<>>, b |-> FALSE]
Text(v) == IF v.t = "int" THEN VStr(v.s) ELSE v
DefaultVal(qq) == IF qq.kind = "confirm" THEN VBool(qq.defB)
                  ELSE IF qq.hasDef THEN (IF qq.defInt THEN VInt(qq.def) ELSE VStr(qq.def)) ELSE VNone
\* a typed line is trimmed; an empty line stands for the default
Entry(qq, line) == LET t == Strip(line) IN IF t = <<>> THEN DefaultVal(qq) ELSE VStr(t)

\* ------------------------------------------------------------------ the I/O a dialogue meets, however it got there
\* A route is the sequence of BufferedIO calls made before ask(): [op, ls (typed lines), b]
\*   "ctor" BufferedIO(ls)   "set_input" io.set_input(ls)   "stream_set" io.input.stream.set(ls)        - replace the input
\*   "append_input" io.append_input(ls)   "stream_append" io.input.stream.append(ls)                  - add to it
\*   "clear_input" io.clear_input()   "io_inter" io.set_interactive(b)   "input_inter" io.input.set_interactive(b)
\* Loading input never changes whether the user may be asked; the last interaction call decides.
\* Replacing the input (set_input, stream.set, clear_input) also forgets what was read: the next question starts at its
\* first line; what is appended comes after the lines that are there.  EnvScriptOn(base, r): the input after the calls r
\* were made on an I/O that held base.
RECURSIVE EnvScriptOn(_, _)
EnvScriptOn(base, r) ==
                IF r = <<>> THEN base
                ELSE LET o == r[Len(r)]
                         p == EnvScriptOn(base, SubSeq(r, 1, Len(r) - 1))
                     IN IF o.op \in {"ctor", "ctor_stream", "set_input", "stream_set"} THEN o.ls
                        ELSE IF o.op \in {"append_input", "stream_append"} THEN p \o o.ls
                        ELSE IF o.op = "clear_input" THEN <<>> ELSE p
\* "ctor_stream": an I/O built on a StreamInputStream around a raw seekable stream (io.BytesIO - stdin redirected from a
\* file); "rewrap": a NEW StreamInputStream / Input / IO around the SAME raw stream (what every create_io / ConsoleIO() does
\* with sys.stdin): the lines already read stay read - reading goes on where it stopped - and the new I/O is interactive
EnvScript(r) == EnvScriptOn(<<>>, r)
Replaces(r) == \E k \in 1..Len(r) : r[k].op \in {"ctor", "ctor_stream", "set_input", "stream_set", "clear_input"}
RECURSIVE EnvInter(_)
EnvInter(r) == IF r = <<>> THEN TRUE
               ELSE IF r[Len(r)].op = "rewrap" THEN TRUE
               ELSE IF r[Len(r)].op \in {"io_inter", "input_inter"} THEN r[Len(r)].b
               ELSE EnvInter(SubSeq(r, 1, Len(r) - 1))
SetsInter(r) == \E k \in 1..Len(r) : r[k].op \in {"io_inter", "input_inter", "rewrap"}

\* ================================================================== A-layer
Good(v) == [ok |-> TRUE, val |-> v, cls |-> ""]
Bad(c) == [ok |-> FALSE, val |-> VNone, cls |-> c]

\* one value of SelectChoiceValidator.validate: ambiguity, then by value, then by index
One(cs, v) == IF Count(cs, v) > 1 THEN [ok |-> FALSE, s |-> <<>>]
              ELSE IF Count(cs, v) = 1 THEN [ok |-> TRUE, s |-> v]
              ELSE LET p == PyInt(v)
                   IN IF p.ok /\ 0 <= p.v /\ p.v < Len(cs) THEN [ok |-> TRUE, s |-> cs[p.v + 1]]
                      ELSE [ok |-> FALSE, s |-> <<>>]

\* SelectChoiceValidator keeps `question.choices` - a reference to the caller's list, hence its current content
Values(qq) == IF SnapshotChoices THEN qq.built ELSE qq.choices
ChoiceValidate(qq, c0) ==
  LET c == Text(c0) IN                                   \* `if isinstance(selected, int): selected = str(selected)`
  IF c.t # "str" THEN Bad("TypeError")                  \* empty line and no default: None reaches the validator
  ELSE IF qq.multi
       THEN LET ps == Parts(c.s)
            IN IF \E k \in 1..Len(ps) : ps[k] = <<>> THEN Bad("ValueError")       \* ^[^,]+(?:,[^,]+)*$
               ELSE LET rs == [k \in 1..Len(ps) |-> One(Values(qq), Strip(ps[k]))]
                    IN IF \A k \in 1..Len(rs) : rs[k].ok
                       THEN Good(VList([k \in 1..Len(rs) |-> rs[k].s]))
                       ELSE Bad("ValueError")
       ELSE LET r == One(Values(qq), c.s) IN IF r.ok THEN Good(VStr(r.s)) ELSE Bad("ValueError")

\* kind "plain": a Question with the harness' validator "the answer is one of `choices`" (ValueError otherwise)
PlainValidate(qq, c) == IF c.t = "str" /\ Count(qq.choices, c.s) >= 1 THEN Good(c) ELSE Bad("ValueError")

\* ConfirmationQuestion._get_default_normalizer
Norm(qq, c) == IF qq.kind = "confirm" THEN (IF c.t = "bool" THEN c ELSE VBool(Match(qq.pat, c.s))) ELSE c

Ret(v) == [kind |-> "ret", cls |-> "", val |-> v]
Exc(c) == [kind |-> "exc", cls |-> c, val |-> VNone]
NoOut == [kind |-> "none", cls |-> "", val |-> VNone]
Obs0 == [reads |-> 0, errs |-> 0, prompts |-> 0]

\* environment: between building the question and asking it the caller may have changed the list it passed in
\* (q.built -> q.choices); the object holds the list by reference, so nothing has to happen in the algorithm
CallerEdits == /\ pc = "new" /\ pc' = "ask"
               /\ UNCHANGED <<q, objAtt, script, start, pos, left, pend, cur, out>>

\* Question.ask
Ask == /\ pc = "ask"
       /\ IF ~q.interactive THEN /\ out' = Ret(DefaultVal(q)) /\ pc' = "done" /\ left' = left
          ELSE IF q.validator THEN /\ left' = (IF objAtt = 0 THEN Unl ELSE objAtt) /\ pc' = "head" /\ out' = out   \* attempts = self._attempts
          ELSE /\ pc' = "prompt" /\ left' = left /\ out' = out
       /\ UNCHANGED <<q, objAtt, script, start, pos, pend, cur>>

\* _validate_attempts: `while attempts is None or attempts:` + printing of the pending error; `raise error`
LoopHead == /\ pc = "head"
            /\ IF left = 0 THEN out' = Exc(pend) /\ pc' = "done" ELSE out' = out /\ pc' = "prompt"
            /\ UNCHANGED <<q, objAtt, script, start, pos, left, pend, cur>>

\* _do_ask: _write_prompt
Prompt == /\ pc = "prompt" /\ pc' = "read"
          /\ UNCHANGED <<q, objAtt, script, start, pos, left, pend, cur, out>>

\* _read_from_input: a line, or RuntimeError("Aborted") at end of input
Read == /\ pc = "read"
        /\ IF pos < Len(script)
           THEN /\ pos' = pos + 1 /\ cur' = Entry(q, script[pos + 1])
                /\ pc' = (IF q.validator THEN "validate" ELSE "normalize")
                /\ UNCHANGED <<pend, out>>
           ELSE /\ UNCHANGED <<pos, cur>>
                /\ IF q.validator /\ RetryOnAbort
                   THEN pend' = "RuntimeError" /\ pc' = "retry" /\ out' = out
                   ELSE pend' = pend /\ pc' = "done" /\ out' = Exc("RuntimeError")
        /\ UNCHANGED <<q, objAtt, script, start, left>>

Validate == /\ pc = "validate"
            /\ LET r == IF q.kind = "choice" THEN ChoiceValidate(q, cur) ELSE PlainValidate(q, cur)
               IN IF r.ok THEN out' = Ret(r.val) /\ pc' = "done" /\ pend' = pend
                  ELSE out' = out /\ pc' = "retry" /\ pend' = r.cls
            /\ UNCHANGED <<q, objAtt, script, start, pos, left, cur>>

\* `if attempts is not None: attempts -= 1`
Retry == /\ pc = "retry" /\ pc' = "head"
         /\ left' = (IF left = Unl THEN Unl ELSE left - 1)
         /\ UNCHANGED <<q, objAtt, script, start, pos, pend, cur, out>>

\* no validator: the (normalised) answer is returned as it is
Normalize == /\ pc = "normalize" /\ pc' = "done" /\ out' = Ret(Norm(q, cur))
             /\ UNCHANGED <<q, objAtt, script, start, pos, left, pend, cur>>

Step == CallerEdits \/ Ask \/ LoopHead \/ Prompt \/ Read \/ Validate \/ Retry \/ Normalize

\* the observer: reads of the input stream, error lines and prompts on the error output
Observed == obs' = [reads   |-> obs.reads + (IF pc = "read" THEN 1 ELSE 0),
                    errs    |-> obs.errs + (IF pc = "head" /\ left # 0 /\ pend # "none" THEN 1 ELSE 0),
                    prompts |-> obs.prompts + (IF pc = "prompt" THEN 1 ELSE 0)]
Next == Step /\ Observed
CoreNext == Step /\ UNCHANGED obs        \* without the counters the state space is finite even if the dialogue spins

Start(qq, sc, st) ==
  /\ q = qq /\ objAtt = qq.maxAtt /\ script = sc /\ start = st /\ pos = st /\ left = 0 /\ pend = "none" /\ cur = VNone
  /\ pc = "new" /\ out = NoOut /\ obs = Obs0
Reset(qq, sc, st) ==
  /\ q' = qq /\ objAtt' = qq.maxAtt /\ script' = sc /\ start' = st /\ pos' = st /\ left' = 0 /\ pend' = "none" /\ cur' = VNone
  /\ pc' = "new" /\ out' = NoOut /\ obs' = Obs0
\* the SAME question object is asked again (on the input sc from line st): whatever the object stores survives;
\* qq = its configuration now (the caller may have used a setter or edited the choice list in between)
ReAskAs(qq, sc, st) ==
  /\ q' = qq /\ objAtt' = qq.maxAtt /\ script' = sc /\ start' = st /\ pos' = st /\ left' = 0 /\ pend' = "none" /\ cur' = VNone
  /\ pc' = "ask" /\ out' = NoOut /\ obs' = Obs0
ReAsk(sc, st) ==
  /\ q' = q /\ objAtt' = objAtt /\ script' = sc /\ start' = st /\ pos' = st /\ left' = 0 /\ pend' = "none" /\ cur' = VNone
  /\ pc' = "ask" /\ out' = NoOut /\ obs' = Obs0

\* the model's own outcome in the shape of an observation
ModelObs == [kind |-> out.kind, cls |-> out.cls, val |-> out.val, reads |-> obs.reads, consumed |-> pos - start,
             errs |-> obs.errs, prompts |-> obs.prompts, outBytes |-> 0,
             errBytes |-> IF obs.prompts + obs.errs > 0 THEN 1 ELSE 0]

\* nothing of a dialogue survives in the question object
ObjectIntact == objAtt = q.maxAtt

\* liveness: every dialogue ends (checked under weak fairness of the step relation, no state constraint)
Termination == <>(pc = "done")

TypeOK == /\ pc \in {"new", "ask", "head", "prompt", "read", "validate", "normalize", "retry", "done"}
          /\ pos \in start..Len(script) /\ left >= -1
          /\ out.kind \in {"none", "ret", "exc"} /\ (pc = "done") = (out.kind # "none")

\* ================================================================== P-layer (over observations)
\* What the statement fixes about one typed entry e of a choice question (single value):
\*   accept  - e is the text of exactly one choice (that choice), or e is the canonical decimal of an index in
\*             range and not itself a choice (the choice at that index: value match has precedence)
\*   reject  - canonical negative or out-of-range integer, or a text that is neither
\*   free    - the statement is silent: e equals several choices (ambiguous), e is another spelling of an
\*             integer ("+1", "01", "1_0", "-0"), or e differs from a choice only in the case of letters
IsCanonNat(t) == t # <<>> /\ (\A k \in 1..Len(t) : t[k] \in Digits) /\ (Len(t) > 1 => t[1] # "0")
IsCanonNeg(t) == Len(t) >= 2 /\ t[1] = "-" /\ IsCanonNat(Tail(t)) /\ Tail(t) # <<"0">>
IntLike(t) == (\E k \in 1..Len(t) : t[k] \in Digits)
              /\ \A k \in 1..Len(t) : t[k] \in Digits \cup {"+", "-", "_", " ", "\t"}

PClass1(qq, e) ==
  LET cs == qq.choices
      cnt == Count(cs, e)
  IN IF cnt = 1 THEN [c |-> "accept", s |-> e, why |-> "by-value"]
     ELSE IF cnt > 1 THEN [c |-> "free", s |-> <<>>, why |-> "ambiguous"]
     ELSE IF qq.kind # "choice" THEN [c |-> "reject", s |-> <<>>, why |-> "unknown"]
     ELSE IF IsCanonNat(e)
          THEN (IF NatCap(e) < Len(cs) THEN [c |-> "accept", s |-> cs[NatCap(e) + 1], why |-> "by-index"]
                ELSE [c |-> "reject", s |-> <<>>, why |-> "out-of-range"])
     ELSE IF IsCanonNeg(e) THEN [c |-> "reject", s |-> <<>>, why |-> "negative"]
     ELSE IF IntLike(e) THEN [c |-> "free", s |-> <<>>, why |-> "int-like"]
     ELSE IF \E k \in 1..Len(cs) : LowerOf(cs[k]) = LowerOf(e) THEN [c |-> "free", s |-> <<>>, why |-> "case"]
     ELSE [c |-> "reject", s |-> <<>>, why |-> "unknown"]

MinOf(S) == CHOOSE k \in S : \A j \in S : k <= j

\* an entry value (VStr or, for an empty line without default, VNone); multi-select: comma-separated, blanks
\* around the items are insignificant (tabs there: free), every item is classified on its own
PClass(qq, ev0) ==
  LET ev == Text(ev0) IN
  IF ev.t # "str" THEN [c |-> "free", v |-> VNone, why |-> "empty"]
  ELSE IF ~(qq.kind = "choice" /\ qq.multi)
       THEN LET r == PClass1(qq, ev.s)
            IN [c |-> r.c, v |-> (IF r.c = "accept" THEN VStr(r.s) ELSE VNone), why |-> r.why]
       ELSE LET ps0 == Parts(ev.s)
                ps == [k \in 1..Len(ps0) |-> Strip(ps0[k])]
            IN IF Len(ps) > 1 /\ Count(qq.choices, ev.s) >= 1 THEN [c |-> "free", v |-> VNone, why |-> "comma-choice"]
               ELSE IF \E k \in 1..Len(ps0) : StripSp(ps0[k]) # ps[k] THEN [c |-> "free", v |-> VNone, why |-> "tab-item"]
               ELSE IF \E k \in 1..Len(ps) : ps[k] = <<>> THEN [c |-> "free", v |-> VNone, why |-> "empty-item"]
               ELSE LET rs == [k \in 1..Len(ps) |-> PClass1(qq, ps[k])]
                        rej == {k \in 1..Len(ps) : rs[k].c = "reject"}
                    IN IF rej # {} THEN [c |-> "reject", v |-> VNone, why |-> rs[MinOf(rej)].why]
                       ELSE IF \A k \in 1..Len(ps) : rs[k].c = "accept"
                            THEN [c |-> "accept", v |-> VList([k \in 1..Len(ps) |-> rs[k].s]),
                                  why |-> (IF \E k \in 1..Len(ps) : rs[k].why = "by-value" THEN "by-value" ELSE "by-index")]
                            ELSE [c |-> "free", v |-> VNone, why |-> "mixed"]

ClassAt(qq, sc, st, k) == PClass(qq, Entry(qq, sc[st + k]))

NoDup(s) == \A j, k \in 1..Len(s) : j # k => s[j] # s[k]
\* the value an accepted entry must produce (a selection with repeated items may be returned with or without repeats)
ValOK(cl, val) == IF cl.v.t = "list"
                  THEN val.t = "list" /\ Range(val.l) = Range(cl.v.l) /\ (NoDup(cl.v.l) => val.l = cl.v.l)
                  ELSE val = cl.v

IsMember(qq, val) == IF qq.kind = "choice" /\ qq.multi
                     THEN val.t = "list" /\ \A k \in 1..Len(val.l) : Count(qq.choices, val.l[k]) >= 1
                     ELSE val.t = "str" /\ Count(qq.choices, val.s) >= 1

Validated(qq) == qq.interactive /\ qq.validator
Ended(o) == o.kind \in {"ret", "exc"}

\* "no answer for a line nobody typed": a dialogue consumes only lines that the input holds (nothing stale from an
\* input that was replaced)
PTyped(sc, st, o) == o.consumed >= 0 /\ st + o.consumed <= Len(sc)

\* harness sanity: the stream wrapper's counters are coherent
HSane(sc, st, o) == /\ o.consumed >= 0 /\ st + o.consumed <= Len(sc) /\ o.reads >= o.consumed
                    /\ (o.reads > o.consumed => st + o.consumed = Len(sc))

\* "it gives up at end of input instead of asking forever": the call ends within the read budget
PTerminates(o) == o.kind # "budget"

\* "any question on a non-interactive input returns its default without reading or writing anything"
PNonInteractive(qq, o) == ~qq.interactive =>
   (o.kind = "ret" /\ o.val = DefaultVal(qq) /\ o.reads = 0 /\ o.consumed = 0 /\ o.outBytes = 0 /\ o.errBytes = 0)

\* "returns only a member of the choices, or a list of members when multi-select"
PMember(qq, o) == (Validated(qq) /\ o.kind = "ret") => IsMember(qq, o.val)

\* a valid entry ends the dialogue with the value it denotes - by value or by index alike ("interchangeable")
AcceptBad(qq, sc, st, o) == {k \in 1..o.consumed :
                               LET cl == ClassAt(qq, sc, st, k)
                               IN cl.c = "accept" /\ ~(k = o.consumed /\ o.kind = "ret" /\ ValOK(cl, o.val))}
PAccept(qq, sc, st, o) == (Validated(qq) /\ Ended(o)) => AcceptBad(qq, sc, st, o) = {}

\* an invalid entry (negative, out of range, unknown) is never taken for an answer; no answer without an entry
PReject(qq, sc, st, o) == (Validated(qq) /\ o.kind = "ret") =>
                             (o.consumed >= 1 /\ ClassAt(qq, sc, st, o.consumed).c # "reject")

\* "every invalid entry consumes exactly one attempt ... fails after exactly the configured number of attempts":
\* never more reads than attempts; a failure that is not caused by the end of input comes after exactly maxAtt entries
PAttempts(qq, o) == (Validated(qq) /\ Ended(o)) =>
   /\ (qq.maxAtt > 0 => o.reads <= qq.maxAtt)
   /\ ((o.kind = "exc" /\ o.reads = o.consumed) => (qq.maxAtt > 0 /\ o.consumed = qq.maxAtt))

\* "... and prints one error": every rejected entry is reported once - printed when the question is asked again,
\* printed or carried by the exception when it was the last attempt; reads that met the end of input print at most one each
PErrors(qq, o) == (Validated(qq) /\ Ended(o)) =>
   IF o.kind = "ret" THEN o.errs = o.consumed - 1
   ELSE IF o.reads = o.consumed THEN o.errs \in {o.consumed - 1, o.consumed}
   ELSE o.errs >= o.consumed /\ o.errs <= o.reads

\* nothing is returned after the end of input was met
PEof(qq, o) == (qq.interactive /\ o.reads > o.consumed) => o.kind # "ret"

\* "a confirmation answers true exactly for inputs matching its pattern and its default on empty input"
\* (the line is trimmed; where trimming changes whether the pattern matches, either answer is allowed)
ConfirmOK(qq, line, b) == LET t == Strip(line)
                          IN IF t = <<>> THEN b = qq.defB
                             ELSE IF Match(qq.pat, t) = Match(qq.pat, line) THEN b = Match(qq.pat, t)
                             ELSE TRUE
PConfirm(qq, sc, st, o) == (qq.interactive /\ qq.kind = "confirm" /\ Ended(o)) =>
   IF st < Len(sc) THEN o.kind = "ret" /\ o.consumed = 1 /\ o.reads = 1 /\ o.val.t = "bool" /\ ConfirmOK(qq, sc[st + 1], o.val.b)
   ELSE o.kind = "exc"

PAll(qq, sc, st, o) == /\ PTerminates(o) /\ PNonInteractive(qq, o) /\ PMember(qq, o) /\ PAccept(qq, sc, st, o)
                       /\ PReject(qq, sc, st, o) /\ PAttempts(qq, o) /\ PErrors(qq, o) /\ PEof(qq, o)
                       /\ PConfirm(qq, sc, st, o)
=============================================================================
