SPECIFICATION Spec
CONSTANTS
  SnapshotChoices = FALSE
  RetryOnAbort = FALSE
  Kinds = {"choice", "plain", "confirm"}
  MaxChoices = 2
  NPool = 2
  MaxLines = 2
  NAnswers = 6
  Attempts = {0, 1, 2, 3}
  NDefaults = 4
  Inter = {TRUE, FALSE}
  Multis = {FALSE, TRUE}
  Muts = {0}
  DefInts = {FALSE, TRUE}
  RouteIds = {1, 2, 3, 4, 5, 6, 7, 8}
  Reconfs = {0}
  Rounds = 1
INVARIANT TypeOK
INVARIANT H_sane
INVARIANT P_terminates
INVARIANT P_noninteractive
INVARIANT P_member
INVARIANT P_accept
INVARIANT P_reject
INVARIANT P_attempts
INVARIANT P_errors
INVARIANT P_eof
INVARIANT P_typed
INVARIANT P_confirm
INVARIANT A_prompts
INVARIANT A_object
INVARIANT Emit
PROPERTY Termination
