SPECIFICATION Spec
CONSTANTS
  RetryOnAbort = FALSE
  Kinds = {"choice", "plain", "confirm"}
  MaxChoices = 2
  NPool = 3
  MaxLines = 2
  NAnswers = 6
  Attempts = {0, 1, 2, 3}
  NDefaults = 4
  Inter = {TRUE, FALSE}
INVARIANT TypeOK
INVARIANT H_sane
INVARIANT P_terminates
INVARIANT P_noninteractive
INVARIANT P_member
INVARIANT P_accept
INVARIANT P_reject
INVARIANT P_attempts
INVARIANT P_errors
INVARIANT P_eof
INVARIANT P_confirm
INVARIANT A_prompts
INVARIANT Emit
PROPERTY Termination
