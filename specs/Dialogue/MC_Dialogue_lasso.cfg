SPECIFICATION CoreSpec
CONSTANTS
  SnapshotChoices = FALSE
  RetryOnAbort = TRUE
  Kinds = {"choice", "plain"}
  MaxChoices = 1
  NPool = 2
  MaxLines = 1
  NAnswers = 5
  Attempts = {0, 2}
  NDefaults = 0
  Inter = {TRUE}
  Multis = {FALSE, TRUE}
  Muts = {0}
  DefInts = {FALSE}
  RouteIds = {1}
  Reconfs = {0}
  Rounds = 1
PROPERTY Termination
