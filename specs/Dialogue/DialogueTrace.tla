--------------------------- MODULE DialogueTrace ---------------------------
(* Recorded dialogues of the real Question / ChoiceQuestion / ConfirmationQuestion checked against Dialogue.
   A trace = the questions asked one after the other on one or several inputs (sessions: script + end of input);
   a question OBJECT may be asked more than once (reask), also on a later input; the caller may have changed the choice
   list between building the object (q.built) and asking (q.choices).
   event: [q      : the question (see Dialogue), sess : number of the input, obj : number of the question object,
           reask  : this object was asked before,
           route  : the BufferedIO calls made since the previous ask ([op, ls, b]; the whole preparation for the first ask of an input),
           script : all lines of the input, start : lines consumed before this ask,
           obs    : [kind ("ret"|"exc"|"budget"), cls, val [t,s,l,b], reads, consumed, errs, prompts, outBytes, errBytes,
                     maxAfter (max_attempts of the object after the dialogue, 0 = unlimited)]]
   P-clauses: the operators of Dialogue's P-layer on the observation.  A-clauses: agreement with the A-layer
   run from the same question and position.                                                                *)
EXTENDS Dialogue, TraceKit

VARIABLES tid, l
tvars == <<vars, tid, l>>

T == Traces[tid]
Ev == T[l]

TInit == /\ tid \in 1..NTraces /\ l = 1
         /\ Start(Traces[tid][1].q, Traces[tid][1].script, Traces[tid][1].start)

TStep == l <= Len(T) /\ pc # "done" /\ Next /\ UNCHANGED <<tid, l>>

HasLT(line) == \E k \in 1..Len(line) : line[k] = "<"
WordChars == Digits \cup Range(UpperS) \cup Range(LowerS) \cup {"_", "-"}
\* a multi-select entry with an item that has an inner blank or a character outside [A-Za-z0-9_-]
MultiSpecial(qq, ev) ==
  /\ qq.kind = "choice" /\ qq.multi /\ ev.t = "str"
  /\ LET ps == Parts(ev.s)
     IN \E k \in 1..Len(ps) : LET it == Strip(ps[k]) IN \E j \in 1..Len(it) : it[j] \notin WordChars
Mode(qq) == IF qq.multi THEN "/multi" ELSE "/single"

\* keys: which violation of the clause this is
TermKey(o) == IF o.reads > o.consumed THEN "end-of-input" ELSE "no-read"
AcceptKey(qq, sc, st, o) ==
  LET B == AcceptBad(qq, sc, st, o)
  IN IF B = {} THEN ""
     ELSE LET k == MinOf(B)
              ev == Entry(qq, sc[st + k])
          IN IF MultiSpecial(qq, ev) THEN "multi/item-with-blank-or-special-character"
             ELSE ClassAt(qq, sc, st, k).why \o Mode(qq)
RejectKey(qq, sc, st, o) ==
  IF o.consumed >= 1
  THEN (IF MultiSpecial(qq, Entry(qq, sc[st + o.consumed])) THEN "multi/item-with-blank-or-special-character"
        ELSE ClassAt(qq, sc, st, o.consumed).why \o Mode(qq))
  ELSE "no-entry"
AttemptsKey(qq, sc, st, o) ==
  IF qq.maxAtt > 0 /\ o.reads > qq.maxAtt THEN "late"
  ELSE IF o.consumed >= 1 /\ HasLT(sc[st + o.consumed]) THEN "early/markup" ELSE "early"   \* the last entry read has a "<"
\* keys stay short: TLC wraps tuples wider than 80 columns
Edited(qq) == qq.built # qq.choices
KeyE(qq, k) == IF Edited(qq) THEN "list-edited" ELSE k

Clauses(e) ==
  LET qq == e.q
      sc == e.script
      st == e.start
      o == e.obs
  IN \* same input as the previous ask: reading goes on where it stopped (what was appended in between comes last);
     \* a replaced input, or another I/O: from its first line
     /\ Check(tid, l, "H.chain", "", IF l > 1 /\ T[l - 1].sess = e.sess
                                      THEN (IF Replaces(e.route) THEN sc = EnvScript(e.route) /\ st = 0
                                            ELSE sc = EnvScriptOn(T[l - 1].script, e.route)
                                                 /\ st = T[l - 1].start + T[l - 1].obs.consumed)
                                      ELSE st = 0)
     \* the environment of the dialogue is the I/O as the route of calls left it
     /\ Check(tid, l, "H.route", "", (l = 1 \/ T[l - 1].sess # e.sess) => (e.route # <<>> /\ sc = EnvScript(e.route)))
     /\ Check(tid, l, "H.route.inter", "", SetsInter(e.route) => qq.interactive = EnvInter(e.route))
     /\ Check(tid, l, "H.object", "", e.reask = (\E j \in 1..(l - 1) : T[j].obj = e.obj))
     /\ Check(tid, l, "P.typed", IF l > 1 /\ T[l - 1].sess = e.sess /\ Replaces(e.route) THEN "after-reload" ELSE "", PTyped(sc, st, o))
     /\ Check(tid, l, "H.sane", "", HSane(sc, st, o))
     /\ Check(tid, l, "P.terminates", TermKey(o), PTerminates(o))
     /\ Check(tid, l, "P.noninteractive", "", PNonInteractive(qq, o))
     /\ Check(tid, l, "P.member", KeyE(qq, ""), PMember(qq, o))
     /\ Check(tid, l, "P.accept", KeyE(qq, AcceptKey(qq, sc, st, o)), PAccept(qq, sc, st, o))
     /\ Check(tid, l, "P.reject", KeyE(qq, RejectKey(qq, sc, st, o)), PReject(qq, sc, st, o))
     /\ Check(tid, l, "P.attempts", AttemptsKey(qq, sc, st, o) \o (IF e.reask THEN "/re-asked" ELSE ""), PAttempts(qq, o))
     /\ Check(tid, l, "P.errors", "", PErrors(qq, o))
     /\ Check(tid, l, "P.eof", "", PEof(qq, o))
     /\ Check(tid, l, "P.confirm", "", PConfirm(qq, sc, st, o))
     /\ Note(tid, l, "A.outcome", o.kind = out.kind /\ o.val = out.val)
     /\ Note(tid, l, "A.class", o.kind = "exc" => o.cls = out.cls)
     /\ Note(tid, l, "A.reads", o.reads = obs.reads /\ o.consumed = pos - start)
     /\ Note(tid, l, "A.errors", o.errs = obs.errs)
     /\ Note(tid, l, "A.prompts", o.prompts = obs.prompts)
     /\ Note(tid, l, "A.stdout", o.outBytes = 0)
     /\ Note(tid, l, "A.object", o.maxAfter = qq.maxAtt /\ ObjectIntact)
     /\ Note(tid, l, "A.aliasing", o.listSame)          \* the caller's own choice list is as the caller left it

\* the next question starts where the real execution stopped reading
TCompare ==
  /\ l <= Len(T) /\ pc = "done"
  /\ Clauses(Ev)
  /\ l' = l + 1 /\ tid' = tid
  /\ IF l + 1 <= Len(T) THEN Reset(T[l + 1].q, T[l + 1].script, T[l + 1].start) ELSE UNCHANGED vars

TDone == /\ l = Len(T) + 1 /\ l' = l + 1 /\ tid' = tid /\ UNCHANGED vars /\ Accept(tid)

TNext == TStep \/ TCompare \/ TDone
TSpec == TInit /\ [][TNext]_tvars
=============================================================================
