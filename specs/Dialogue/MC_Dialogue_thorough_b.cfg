SPECIFICATION SafetySpec
CONSTANTS
  SnapshotChoices = FALSE
  RetryOnAbort = FALSE
  Kinds = {"choice"}
  MaxChoices = 3
  NPool = 4
  MaxLines = 2
  NAnswers = 19
  Attempts = {0, 1, 2}
  NDefaults = 4
  Inter = {TRUE}
  Multis = {FALSE, TRUE}
  Muts = {0}
  DefInts = {FALSE}
  RouteIds = {1}
  Reconfs = {0}
  Rounds = 1
INVARIANT TypeOK
INVARIANT H_sane
INVARIANT P_terminates
INVARIANT P_noninteractive
INVARIANT P_member
INVARIANT P_accept
INVARIANT P_reject
INVARIANT P_attempts
INVARIANT P_errors
INVARIANT P_eof
INVARIANT P_typed
INVARIANT P_confirm
INVARIANT A_prompts
INVARIANT A_object
INVARIANT Emit
