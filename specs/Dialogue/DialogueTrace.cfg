SPECIFICATION TSpec
CONSTANTS
  RetryOnAbort = FALSE
INVARIANT TypeOK
