SPECIFICATION TSpec
CONSTANTS
  RetryOnAbort = FALSE
  SnapshotChoices = FALSE
INVARIANT TypeOK
