SPECIFICATION TSpec
