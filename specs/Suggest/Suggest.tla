------------------------------ MODULE Suggest ------------------------------
(* "Did you mean ...?" - the suggestions attached to the resolver's "command not defined" error
   (clikit.utils.command.find_similar_command_names, CannotResolveCommandException.name_not_found).
   Extension of the Resolver specification: no listed property speaks about the suggestions; C03 only needs the
   undefined token the message starts with.  Every deviation between this model and the code is DRIFT.

   A name is suggested when it is near the typed word (Levenshtein distance d with 3*d <= length of the typed word) or
   contains it; names and aliases take part alike.  Order: distance, then position of the typed word in the name
   (names that do not contain it last), then code-point order of the names (the candidates are looked at in sorted
   order and the sort by (distance, position) is stable).  Strings are sequences of one-character strings.        *)
EXTENDS Naturals, Sequences, FiniteSets, TLC

Min2(a, b) == IF a <= b THEN a ELSE b
Min3(a, b, c) == Min2(a, Min2(b, c))
\* Levenshtein distance (the Wagner-Fischer table as a recursively defined function)
Lev(s, t) ==
  LET f[i \in 0..Len(s), j \in 0..Len(t)] ==
        IF i = 0 THEN j
        ELSE IF j = 0 THEN i
        ELSE Min3(f[i - 1, j] + 1, f[i, j - 1] + 1, f[i - 1, j - 1] + (IF s[i] = t[j] THEN 0 ELSE 1))
  IN f[Len(s), Len(t)]

NotFound == 1000000        \* stands for float("inf") in the sort key
\* str.find: smallest offset at which `needle` occurs in `hay` (the empty word occurs at 0)
Occurs(hay, needle, k) == k + Len(needle) <= Len(hay) /\ SubSeq(hay, k + 1, k + Len(needle)) = needle
Find(hay, needle) ==
  IF \E k \in 0..Len(hay) : Occurs(hay, needle, k)
  THEN CHOOSE k \in 0..Len(hay) : Occurs(hay, needle, k) /\ \A m \in 0..(k - 1) : ~Occurs(hay, needle, m)
  ELSE NotFound

Near(word, name) == 3 * Lev(word, name) <= Len(word)
Contains(name, word) == Find(name, word) # NotFound
Candidate(word, name) == Near(word, name) \/ Contains(name, word)

\* code-point order on the characters that may occur in command names; Ord is the position in this list
Chars == <<"-", "0", "1", "2", "3", "4", "5", "6", "7", "8", "9", "_", "a", "b", "c", "d", "e", "f", "g", "h", "i", "j", "k",
           "l", "m", "n", "o", "p", "q", "r", "s", "t", "u", "v", "w", "x", "y", "z">>
Ord(c) == CHOOSE i \in 1..Len(Chars) : Chars[i] = c
RECURSIVE LexLess(_, _)
LexLess(a, b) == IF a = <<>> THEN b # <<>>
                 ELSE IF b = <<>> THEN FALSE
                 ELSE IF a[1] = b[1] THEN LexLess(Tail(a), Tail(b))
                 ELSE Ord(a[1]) < Ord(b[1])

Key(word, name) == <<Lev(word, name), Find(name, word)>>
Before(word, a, b) ==            \* a is listed before b
  LET ka == Key(word, a)  kb == Key(word, b) IN
  \/ ka[1] < kb[1]
  \/ ka[1] = kb[1] /\ ka[2] < kb[2]
  \/ ka = kb /\ LexLess(a, b)

\* the suggestions for `word` among a SET of names (names and aliases of the commands of one level)
RECURSIVE Ordered(_, _)
Ordered(word, S) == IF S = {} THEN <<>>
                    ELSE LET first == CHOOSE a \in S : \A b \in S \ {a} : Before(word, a, b)
                         IN <<first>> \o Ordered(word, S \ {first})
Suggestions(word, Names) == Ordered(word, {n \in Names : Candidate(word, n)})

\* how the message continues after 'The command "<word>" is not defined.'
Header(sugg) == IF Len(sugg) = 0 THEN "none" ELSE IF Len(sugg) = 1 THEN "this" ELSE "these"

------------------------------------------------------------------------------
(* Laws (checked by TLC over every small instance, and on every observed answer) *)
Range(q) == {q[i] : i \in 1..Len(q)}
LawSubset(word, Names, sugg) == Range(sugg) \subseteq Names                                   \* only existing names
LawDistinct(sugg) == \A i, j \in 1..Len(sugg) : sugg[i] = sugg[j] => i = j
LawAbbrev(word, Names, sugg) == \A n \in Names : Contains(n, word) => n \in Range(sugg)       \* an abbreviation finds its name
LawTypo(word, Names, sugg) == \A n \in Names : (Len(word) >= 3 /\ Lev(word, n) = 1) => n \in Range(sugg)   \* one slip, word of >= 3
LawNearestFirst(word, sugg) == \A i, j \in 1..Len(sugg) : i < j => Lev(word, sugg[i]) <= Lev(word, sugg[j])
LawFar(word, Names, sugg) == \A n \in Range(sugg) : Contains(n, word) \/ 3 * Lev(word, n) <= Len(word)   \* nothing unrelated
\* sanity of the distance itself
LevMetric(s, t) == /\ Lev(s, t) = Lev(t, s) /\ (Lev(s, t) = 0) = (s = t)
                   /\ Lev(s, t) <= (IF Len(s) >= Len(t) THEN Len(s) ELSE Len(t))
                   /\ Lev(s, t) >= (IF Len(s) >= Len(t) THEN Len(s) - Len(t) ELSE Len(t) - Len(s))
=============================================================================
