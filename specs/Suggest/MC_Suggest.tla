----------------------------- MODULE MC_Suggest -----------------------------
(* Every set of at most MaxNames names (length 1..MaxLen over Alpha) x every typed word (length 0..MaxWord): the laws,
   and one emitted record per instance for the replay on the real CommandCollection / application.              *)
EXTENDS Suggest, Json
CONSTANTS MaxNames, MaxLen, MaxWord
Alpha == {"a", "b", "-"}
Words(n) == UNION {[1..k -> Alpha] : k \in 0..n}
NamePool == {w \in Words(MaxLen) : w # <<>> /\ w[1] # "-"}
VARIABLES names, word, typed
vars == <<names, word, typed>>
\* two steps (the names, then the typed word) so that TLC's workers share the instances
Init == /\ names \in {S \in SUBSET NamePool : Cardinality(S) <= MaxNames}
        /\ word = <<>> /\ typed = FALSE
Next == ~typed /\ typed' = TRUE /\ word' \in Words(MaxWord) /\ UNCHANGED names
Spec == Init /\ [][Next]_vars

S == Suggestions(word, names)
Laws == typed =>
        /\ LawSubset(word, names, S) /\ LawDistinct(S) /\ LawAbbrev(word, names, S) /\ LawTypo(word, names, S)
        /\ LawNearestFirst(word, S) /\ LawFar(word, names, S)
Metric == typed => \A n \in names : LevMetric(word, n)
\* names in a fixed (code-point) order so that the record does not depend on TLC's set order
Listed == Ordered(<<>>, names)
Emit == typed => PrintT(ToJson([names |-> Listed, word |-> word, sugg |-> S, header |-> Header(S)]))
=============================================================================
