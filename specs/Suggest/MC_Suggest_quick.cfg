SPECIFICATION Spec
CONSTANTS
  MaxNames = 2
  MaxLen = 3
  MaxWord = 3
INVARIANT Laws
INVARIANT Metric
INVARIANT Emit
