SPECIFICATION Spec
CONSTANTS
  MaxNames = 3
  MaxLen = 3
  MaxWord = 4
INVARIANT Laws
INVARIANT Metric
INVARIANT Emit
