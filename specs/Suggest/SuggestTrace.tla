---------------------------- MODULE SuggestTrace ----------------------------
(* Observed suggestion lists (find_similar_command_names on a real CommandCollection, and the message of the
   resolver's error for an undefined command on a real application) against Suggest.  One event per trace:
   [names (all names and aliases of the level), word, obs: [sugg, header]].  Extension: every clause is an A-clause. *)
EXTENDS Suggest, TraceKit
VARIABLES tid, l
tvars == <<tid, l>>
T == Traces[tid]
Ev == T[l]
TInit == tid \in 1..NTraces /\ l = 1
NamesOf(e) == {e.names[i] : i \in 1..Len(e.names)}
TEvent == /\ l <= Len(T) /\ l' = l + 1 /\ tid' = tid
          /\ LET N == NamesOf(Ev)  s == Ev.obs.sugg IN
             /\ Note(tid, l, "A.suggest.list", s = Suggestions(Ev.word, N))
             /\ Note(tid, l, "A.suggest.header", Ev.obs.header = Header(s))
             /\ Note(tid, l, "A.suggest.law.subset", LawSubset(Ev.word, N, s))
             /\ Note(tid, l, "A.suggest.law.distinct", LawDistinct(s))
             /\ Note(tid, l, "A.suggest.law.abbrev", LawAbbrev(Ev.word, N, s))
             /\ Note(tid, l, "A.suggest.law.typo", LawTypo(Ev.word, N, s))
             /\ Note(tid, l, "A.suggest.law.nearest_first", LawNearestFirst(Ev.word, s))
             /\ Note(tid, l, "A.suggest.law.far", LawFar(Ev.word, N, s))
TDone == /\ l = Len(T) + 1 /\ l' = l + 1 /\ tid' = tid /\ Accept(tid)
TNext == TEvent \/ TDone
TSpec == TInit /\ [][TNext]_tvars
=============================================================================
