SPECIFICATION TSpec
