SPECIFICATION PSpec
CONSTANTS
  Kinds <- AllKinds
  MaxNest = 2
  Ns <- NsFull
  Shapes <- ShapesFew
  MaxOps = 4
INVARIANT Restored
INVARIANT SavedCoherent
INVARIANT OutsideClosed
INVARIANT EmitPrograms
