SPECIFICATION PSpec
CONSTANTS
  Kinds <- AllKinds
  MaxNest = 3
  Ns <- NsOne
  Shapes <- ShapesFew
  MaxOps = 6
INVARIANT Restored
INVARIANT SavedCoherent
INVARIANT OutsideClosed
INVARIANT EmitPrograms
