--------------------------- MODULE MC_OutputGate ---------------------------
(* Uses of OutputGate:
   BSpec   plain BFS over the abstract state (invariants on every reachable state, Monotone on every step);
   TSpec   the complete gate table: [configure every output with (quiet, verbosity)] ; [one writing call] for every
           kind x decoration x quiet x verbosity x entry x flag word - emitted for replay on the real classes;
   HSpec   every operation sequence of length Depth over a reduced menu (setters on single outputs and on the
           whole I/O, writes, clear, overwrite) - emitted; with -simulate for longer ones.                      *)
EXTENDS OutputGate, Json

CONSTANTS Depth, SeqLevels, SeqFlags, SeqNames, SeqRewire
VARIABLE hist
hvars == <<vars, hist>>

AllKinds == {"output", "section", "io", "iosec", "sections"}
TableKinds == {"output", "section", "io", "iosec"}
SeqKindsAll == {"section", "io", "iosec", "sections"}
OnlySections == {"sections"}
SectionKinds == {"section", "sections"}
BothDecs == BOOLEAN
OnlyDec == {TRUE}
QuickLevels == {0, 1}
QuickFlags == {NoFlags, 1}
NoneOnly == {NoFlags}
SomeFlags == {NoFlags, 0, 2, 5}
SecNames == {"write_line", "clear", "overwrite"}
IOSeqNames == {"write_line", "error", "write_raw", "error_line_raw", "clear", "overwrite"}
AllNames == SectionMethods \cup IOMethods

OnePlain == {"plain"}
\* in the sequences the shape of a text is fixed by the position of the call (no further branching)
ShapeAt(k) == <<"nl", "plain", "mid", "uni", "pad">>[(k % 5) + 1]

HInit == Init /\ hist = <<>>
BSpec == HInit /\ [][Next /\ UNCHANGED hist]_hvars

\* ---- the table
Configure(q, v) ==
  /\ outs' = [o \in DOMAIN outs |-> [outs[o] EXCEPT !.q = q, !.v = v]]
  /\ last' = [op |-> "config", q |-> q, v |-> v]
  /\ UNCHANGED <<obj, seen, shut, next>>
TNext == /\ Len(hist) < 2
         /\ IF hist = <<>> THEN \E q \in BOOLEAN, v \in Levels : Configure(q, v)
            ELSE \E name \in AllNames, o \in DOMAIN outs, f \in FlagWords, sh \in TextShapes :
                    (RoleOf(obj.kind) = "io" => o = 1) /\ Write(name, o, f, sh)
         /\ hist' = Append(hist, last')
TSpec == HInit /\ [][TNext]_hvars

\* ---- sequences
HNext == /\ Len(hist) < Depth
         /\ \/ \E g \in Groups, q \in BOOLEAN : SetQuiet(g, q)
            \/ \E g \in Groups, v \in SeqLevels : SetVerbosity(g, v)
            \/ \E g \in Groups : SeqRewire /\ obj.kind # "sections" /\ Rewire(g)
            \/ \E name \in SeqNames, o \in DOMAIN outs, f \in SeqFlags :
                  (RoleOf(obj.kind) = "io" => o = 1) /\ Write(name, o, f, ShapeAt(Len(hist)))
         /\ hist' = Append(hist, last')
HSpec == HInit /\ [][HNext]_hvars

\* sets are printed as JSON arrays by ToJson
Emit == Len(hist) = Depth => PrintT(ToJson([kind |-> obj.kind, dec |-> obj.dec, n |-> Len(outs), ops |-> hist]))
EmitTable == Len(hist) = 2 => PrintT(ToJson([kind |-> obj.kind, dec |-> obj.dec, n |-> Len(outs), ops |-> hist]))

ASSUME GateIsMayWrite
=============================================================================
