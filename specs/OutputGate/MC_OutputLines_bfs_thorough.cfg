SPECIFICATION BSpec
CONSTANTS
  Kinds <- AllKinds
  MaxNest = 4
  Ns <- NsFull
  Shapes <- ShapesFull
  MaxOps = 0
INVARIANT LinesRight
INVARIANT Restored
INVARIANT SavedCoherent
INVARIANT OutsideClosed
