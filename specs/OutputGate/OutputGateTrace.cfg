SPECIFICATION TSpec
CONSTANTS
  Kinds <- TKinds
  Decs <- TDecs
  NSecs = 9
  MaxTexts = 100000
  Flags <- FlagWords
  Verbs <- Levels
  TextShapes <- MarkShapes
  Repaired = TRUE
