SPECIFICATION HSpec
CONSTANTS
  Kinds <- SeqKindsAll
  Decs <- BothDecs
  NSecs = 2
  MaxTexts = 4
  Flags <- FlagWords
  Verbs <- Levels
  TextShapes <- OnePlain
  Repaired = TRUE
  Depth = 3
  SeqLevels <- QuickLevels
  SeqFlags <- QuickFlags
  SeqRewire = FALSE
  SeqNames <- IOSeqNames
INVARIANT ClosedSilent
INVARIANT OpenShows
INVARIANT NeverLeaks
INVARIANT Emit
