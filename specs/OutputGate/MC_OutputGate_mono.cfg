SPECIFICATION BSpec
CONSTANTS
  Kinds <- AllKinds
  Decs <- BothDecs
  NSecs = 2
  MaxTexts = 0
  Flags <- FlagWords
  Verbs <- Levels
  TextShapes <- OnePlain
  Repaired = TRUE
  Depth = 0
  SeqLevels <- QuickLevels
  SeqFlags <- QuickFlags
  SeqRewire = FALSE
  SeqNames <- SecNames
INVARIANT TypeOK
PROPERTY Monotone
