------------------------- MODULE SectionScreenTrace -------------------------
(* C11 (d) on the interpreted screen: section outputs of one decorated Output that carry an indentation and are
   overwritten / cleared / written to after a younger section was filled.  The bytes of every operation are tokenised
   by harness/engine/termbytes.py and applied to the Terminal model here (specs/common/Terminal.tla, as C15 does).

   event (every event carries every key):
     op    "new" (w: terminal width; fk: formatter kind plain | ansi | forced, sa: the stream reports ANSI support)
           | "rewire" (fk: the formatter kind every section and the parent were given by set_formatter)
           | "op"
           The outputs are decorated iff the formatter forces ANSI, or uses it and the stream supports it (a
           PlainFormatter never - also on a stream that reports ANSI support, as with --no-ansi on a terminal), whether
           the formatter came with the constructor or by set_formatter.
     what  the operation (key of the clause): line | overwrite | clear | clearn | scope-line ...
     line  the text the operation writes (1-character strings, no blanks, unique per trace), <<>> if none
     ind   the indentation in force on that section for that line
     ops   terminal operations of the bytes that arrived during the operation
   P.indent.screen: every non-blank row on the screen is one of the lines written so far, behind exactly the
                    indentation that was in force when it was written ("every non-empty line is prefixed by exactly
                    the indentation in force").  Which lines remain on the screen is C15's clause, not claimed here.
   P.plain.noescape: an undecorated output emits text and newlines only - no escape byte, whatever is rewound.
   A.ops.known:     the bytes are operations the Terminal model interprets (otherwise nothing is claimed).          *)
EXTENDS Terminal, TraceKit

VARIABLES tid, l,
          term,      \* the terminal as the bytes so far leave it
          written,   \* set of [t, i]: line texts written so far with their indentation
          dec,       \* the outputs under test are decorated (P: decided from the pair in place)
          sa         \* their stream reports ANSI support
tvars == <<tid, l, term, written, dec, sa>>
T == Traces[tid]
Ev == T[l]

TInit == tid \in 1..NTraces /\ l = 1 /\ term = TermNew(80) /\ written = {} /\ dec = TRUE /\ sa = FALSE
Adv == l' = l + 1 /\ tid' = tid
Is(op) == l <= Len(T) /\ Ev.op = op

PDecorated(k, a) == k = "forced" \/ (k = "ansi" /\ a)        \* as Markup!PDecorated

TRewire == /\ Is("rewire") /\ Adv /\ UNCHANGED <<term, written, sa>>
           /\ Check(tid, l, "P.config.settable", "set_formatter:" \o Ev.res, Ev.res = "ok")
           /\ dec' = PDecorated(Ev.fk, sa)

TNew == /\ Is("new") /\ Adv
        /\ Check(tid, l, "P.route.exists", "sections:" \o Ev.res, Ev.res = "ok")
        /\ term' = TermNew(Ev.w) /\ written' = {} /\ sa' = Ev.sa /\ dec' = PDecorated(Ev.fk, Ev.sa)

RowOK(row, ws) == \E x \in ws : row = Blanks(x.i) \o x.t
TOp == /\ Is("op") /\ Adv /\ UNCHANGED <<dec, sa>>
       /\ LET e == Ev
              ws == IF e.line = <<>> THEN written ELSE written \cup {[t |-> e.line, i |-> e.ind]}
          IN /\ Check(tid, l, "H.line", "", \A k \in 1..Len(e.line) : e.line[k] # Blank)
             /\ written' = ws
             /\ Check(tid, l, "P.plain.noescape", e.what, ~dec => OnlyPlain(e.ops))
             /\ IF e.res = "ok" /\ AllKnown(e.ops)
                THEN LET t2 == ApplyOps(term, e.ops)
                         scr == Screen(t2)
                     IN /\ term' = t2
                        /\ Check(tid, l, "P.indent.screen", e.what,
                                 \A k \in 1..Len(scr) : scr[k] = <<>> \/ RowOK(scr[k], ws))
                ELSE /\ term' = term
                     /\ Check(tid, l, "P.indent.screen", e.what \o ":" \o e.res, e.res = "ok")
                     /\ Note(tid, l, "A.ops.known", FALSE)

TDone == /\ l = Len(T) + 1 /\ l' = l + 1 /\ tid' = tid /\ UNCHANGED <<term, written, dec, sa>> /\ Accept(tid)

TNext == TNew \/ TRewire \/ TOp \/ TDone
TSpec == TInit /\ [][TNext]_tvars
=============================================================================
