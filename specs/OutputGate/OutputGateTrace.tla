-------------------------- MODULE OutputGateTrace --------------------------
(* Recorded calls on real Output / SectionOutput / IO objects checked against OutputGate.
   event (every event carries every key; unused ones hold neutral values):
     op    "new" | "quiet" | "verbosity" | "rewire" (name: set_stream | set_formatter, g) | "write"; res on every call
     new:        kind, dec, secs (per output: is it a section output), sts (per output: index of its stream)
     quiet:      g (outputs the setter call configures), q          verbosity: g, v
     write:      role ("io"|"output"|"section"), name, o (output the call is made on; io: 1), adr (outputs the caller
                 addresses: the output itself; IO.write* the standard, IO.error* the error output, other I/O entries both), f (flag word, -1 = None / not passed), t (id of the text), sh (its
                 shape: the marker m<t>. alone / ending in a newline / after a line break / between blanks, or - without
                 a marker - empty / blanks / a newline), hasText (the entry takes a text and the shape has a marker), res ("ok" or the exception class),
                 ids (per stream: marker ids found in what arrived during the call), any (per stream: did any byte arrive)
   P-clauses: P.gate.closed, P.gate.open, P.gate.leak.   A-clauses: A.reach (the delegation model predicts the same).   *)
EXTENDS OutputGate, TraceKit

VARIABLES tid, l,
          mute     \* ids of texts written without a marker (they cannot be recognised in what arrives)
tvars == <<vars, tid, l, mute>>
T == Traces[tid]
Ev == T[l]

TKinds == {"output", "section", "io", "iosec", "sections", "?"}
TDecs == BOOLEAN

TInit == /\ tid \in 1..NTraces /\ l = 1 /\ mute = {}
         /\ obj = [kind |-> "?", dec |-> FALSE] /\ outs = <<>>
         /\ seen = {} /\ shut = {} /\ next = 1 /\ last = [op |-> "init"]
Adv == l' = l + 1 /\ tid' = tid
Is(op) == l <= Len(T) /\ Ev.op = op
SetOf(seq) == {seq[k] : k \in DOMAIN seq}

TNew == /\ Is("new") /\ Adv
        /\ Check(tid, l, "P.route.exists", Ev.kind \o ":" \o Ev.res, Ev.res = "ok")   \* every object of the family can be built
        /\ Check(tid, l, "H.new", "", Len(Ev.secs) = Len(Ev.sts) /\ \A k \in DOMAIN Ev.sts : Ev.sts[k] \in Streams)
        /\ obj' = [kind |-> Ev.kind, dec |-> Ev.dec]
        /\ outs' = [k \in 1..Len(Ev.secs) |-> Out(Ev.secs[k], Ev.sts[k])]
        /\ seen' = {} /\ shut' = {} /\ next' = 1 /\ last' = [op |-> "new"] /\ mute' = {}

TQuiet == /\ Is("quiet") /\ Adv /\ UNCHANGED mute
          /\ Check(tid, l, "H.group", "", SetOf(Ev.g) \subseteq DOMAIN outs)
          /\ Check(tid, l, "P.config.settable", "set_quiet", Ev.res = "ok")      \* every configuration can be set
          /\ SetQuiet(SetOf(Ev.g), Ev.q)
TVerbosity == /\ Is("verbosity") /\ Adv /\ UNCHANGED mute
              /\ Check(tid, l, "H.group", "", SetOf(Ev.g) \subseteq DOMAIN outs /\ Ev.v \in Levels)
              /\ Check(tid, l, "P.config.settable", "set_verbosity", Ev.res = "ok")
              /\ SetVerbosity(SetOf(Ev.g), Ev.v)

\* set_stream / set_formatter after construction: no clause of its own - the calls that follow are held to the
\* configuration set before
TRewire == /\ Is("rewire") /\ Adv /\ UNCHANGED mute
           /\ Check(tid, l, "H.group", "", SetOf(Ev.g) \subseteq DOMAIN outs)
           /\ Check(tid, l, "P.config.settable", Ev.name, Ev.res = "ok")
           /\ Rewire(SetOf(Ev.g))

Mode == IF obj.dec THEN "/ansi" ELSE "/plain"
KeyOf(e) == e.role \o "." \o e.name \o Mode
Got(e) == UNION {SetOf(e.ids[s]) : s \in Streams}

TWrite ==
  /\ Is("write") /\ Adv
  /\ LET e == Ev
         adr == SetOf(e.adr)
     IN /\ Check(tid, l, "H.write", "", adr # {} /\ adr \subseteq DOMAIN outs /\ e.o \in DOMAIN outs /\ e.f \in FlagWords
                                         /\ Len(e.ids) = 2 /\ Len(e.any) = 2 /\ e.sh \in MarkShapes \cup NoMarkShapes
                                         /\ (e.sh \in NoMarkShapes => ~e.hasText))
        \* nothing reaches the stream of an addressed output whose gate is shut for this call
        /\ Check(tid, l, "P.gate.closed", KeyOf(e),
                 /\ \A x \in adr : ~Open(outs[x], e.f) => (~e.any[outs[x].st] /\ e.ids[outs[x].st] = <<>>)
                 /\ (\A x \in adr : ~Open(outs[x], e.f)) => \A s \in Streams : ~e.any[s] /\ e.ids[s] = <<>>)
        \* the text reaches a stream when the gate of every addressed output is open
        /\ Check(tid, l, "P.gate.open", KeyOf(e),
                 (e.hasText /\ e.res = "ok" /\ \A x \in adr : Open(outs[x], e.f)) => e.t \in Got(e))
        \* a text whose call was gated shut does not reach a stream later
        /\ Check(tid, l, "P.gate.leak", KeyOf(e), Got(e) \cap shut = {})
        /\ seen' = seen \cup Got(e)
        /\ shut' = IF e.hasText /\ \A x \in adr : ~Open(outs[x], e.f) THEN shut \cup {e.t} ELSE shut
        /\ next' = next + 1 /\ UNCHANGED obj
        /\ last' = [op |-> "write"]
        /\ mute' = IF e.sh \in NoMarkShapes THEN mute \cup {e.t} ELSE mute
        /\ IF Known(e.role, e.name) /\ e.res = "ok" /\ (HasFlags(e.role, e.name) \/ e.f = NoFlags)
           THEN LET tgt == TargetOf(e.role, e.name, e.o)
                    res == Call(outs, obj.dec, e.role, e.name, e.o, e.f, e.t)
                IN /\ outs' = res.outs
                   /\ Note(tid, l, "A.reach",
                           \A s \in Streams : /\ SetOf(e.ids[s]) = (IF s = outs[tgt].st THEN res.ids \ mute' ELSE {})
                                              /\ (e.sh # "empty" => e.any[s] = (IF s = outs[tgt].st THEN res.any ELSE FALSE)))
           ELSE outs' = outs

TDone == /\ l = Len(T) + 1 /\ l' = l + 1 /\ tid' = tid /\ UNCHANGED <<vars, mute>> /\ Accept(tid)

TNext == TNew \/ TQuiet \/ TVerbosity \/ TRewire \/ TWrite \/ TDone
TSpec == TInit /\ [][TNext]_tvars
=============================================================================
