----------------------------- MODULE OutputGate -----------------------------
(* clikit.api.io: Output / SectionOutput / IO and the I/O kinds built on them   (property C10)

   P-layer: MayWrite - "the output is not quiet and its verbosity is at least the lowest level requested
            by the flags" - and the clauses over what reaches the streams:
              ClosedSilent  nothing reaches the stream of an output whose gate is shut for the call
              OpenShows     the text of a call reaches a stream when the gate of the addressed outputs is open
              NeverLeaks    a text whose call was gated shut does not reach a stream later either
              Monotone      raising the verbosity / leaving quiet mode never removes what was shown
   A-layer: the gate as output.py evaluates it (an if-chain over the flag bits), the delegation of every
            writing method down to that gate (who passes the caller's flags, who calls with none), and the
            content bookkeeping of section outputs that share one stream (a write to an older section
            re-emits the recorded content of the newer ones).
            Repaired = TRUE  : SectionOutput.write consults the gate with the caller's flags first
                               (proposed_fixes/C10-section-gate.diff);
            Repaired = FALSE : the pinned tree - TLC then finds ClosedSilent and NeverLeaks violated.

   An object under test is a list of outputs `outs` (1 = standard / the only one, 2 = error; kind "sections":
   1..NSecs section outputs of one Output in creation order, all on stream 1).  Texts are identified by the
   number of the call that wrote them.                                                                    *)
EXTENDS Integers, Sequences, FiniteSets, TLC

CONSTANTS Kinds,      \* subset of {"output", "section", "io", "iosec", "sections"}
          Decs,       \* subset of BOOLEAN: decorated (ANSI branch of SectionOutput) or not
          NSecs,      \* kind "sections": how many section outputs share the stream
          MaxTexts,   \* bound on the number of writing calls in a behaviour
          Flags,      \* flag words explored by Next (subset of FlagWords)
          Verbs,      \* verbosity levels explored by Next (subset of Levels)
          TextShapes, \* shapes of the text a call is given (subset of MarkShapes) - the gate must not depend on the text
          Repaired

VARIABLES obj,     \* [kind, dec]                                      (fixed during a behaviour)
          outs,    \* Seq of [q, v, sec, st, content]                   q/v: P and A;  content: A (section bookkeeping)
          seen,    \* P: text ids that ever reached a stream
          shut,    \* P: text ids whose call found the gate of every addressed output shut
          next,    \* id of the next text
          last     \* observation of the last operation
vars == <<obj, outs, seen, shut, next, last>>

NoFlags == -1                      \* flags=None / flags not passed
Levels == {0, 1, 2, 4}             \* NORMAL, VERBOSE, VERY_VERBOSE, DEBUG  (flags.py)
LevelBits == {1, 2, 4}
FlagWords == {NoFlags} \cup 0..7
\* the text of call t is built around the marker m<t>. : "plain" the marker alone, "nl" ending in a newline,
\* "mid" after a line break, "pad" between blanks.  (The recorded traces add shapes without a marker - the empty
\* text, blanks only, a newline only - for which only "nothing when shut" can be observed.)
MarkShapes == {"plain", "nl", "mid", "pad", "uni"}        \* "uni": between non-ASCII letters
NoMarkShapes == {"empty", "blank", "onlynl"}
Streams == 1..2

\* ------------------------------------------------------------------ P-layer
Bit(w, b) == (w \div b) % 2 = 1
Requested(f) == IF f = NoFlags THEN {} ELSE {b \in LevelBits : Bit(f, b)}
MinLevel(f) == IF Requested(f) = {} THEN 0 ELSE CHOOSE b \in Requested(f) : \A c \in Requested(f) : b <= c
MayWrite(q, v, f) == ~q /\ v >= MinLevel(f)
Open(o, f) == MayWrite(o.q, o.v, f)

\* ------------------------------------------------------------------ A-layer: Output._may_write
GateA(q, v, f) ==
  LET w == IF f = NoFlags THEN 0 ELSE f
  IN IF q THEN FALSE
     ELSE IF Bit(w, 1) THEN v >= 1
     ELSE IF Bit(w, 2) THEN v >= 2
     ELSE IF Bit(w, 4) THEN v >= 4
     ELSE TRUE

\* ------------------------------------------------------------------ A-layer: objects and methods
Out(sec, st) == [q |-> FALSE, v |-> 0, sec |-> sec, st |-> st, content |-> <<>>]
OutsOf(k) == CASE k = "output" -> <<Out(FALSE, 1)>>
               [] k = "section" -> <<Out(TRUE, 1)>>
               [] k = "io" -> <<Out(FALSE, 1), Out(FALSE, 2)>>
               [] k = "iosec" -> <<Out(TRUE, 1), Out(TRUE, 2)>>
               [] k = "sections" -> [i \in 1..NSecs |-> Out(TRUE, 1)]

OutputMethods == {"write", "write_line", "write_raw", "write_line_raw"}
SectionMethods == OutputMethods \cup {"clear", "overwrite"}
IOMethods == {"write", "write_line", "write_raw", "write_line_raw", "error", "error_line", "error_raw", "error_line_raw"}
\* IO.<name> -> (output it addresses, method it calls there).  All of them pass the caller's flags on.
IOEntry(name) == CASE name = "write" -> [on |-> 1, m |-> "write"]
                   [] name = "write_line" -> [on |-> 1, m |-> "write_line"]
                   [] name = "write_raw" -> [on |-> 1, m |-> "write_raw"]
                   [] name = "write_line_raw" -> [on |-> 1, m |-> "write_line_raw"]
                   [] name = "error" -> [on |-> 2, m |-> "write"]
                   [] name = "error_line" -> [on |-> 2, m |-> "write_line"]
                   [] name = "error_raw" -> [on |-> 2, m |-> "write_raw"]
                   [] name = "error_line_raw" -> [on |-> 2, m |-> "write_line_raw"]
RoleOf(k) == IF k \in {"io", "iosec"} THEN "io" ELSE IF k = "output" THEN "output" ELSE "section"
MethodsOf(role) == CASE role = "io" -> IOMethods [] role = "output" -> OutputMethods [] role = "section" -> SectionMethods
Known(role, name) == role \in {"io", "output", "section"} /\ name \in MethodsOf(role)
HasText(name) == name # "clear"
HasFlags(role, name) == ~(role = "section" /\ name \in {"clear", "overwrite"})

IdsOf(seq) == {seq[k] : k \in DOMAIN seq}
\* sections created after o on the same Output: the shared list is newest-first and is walked up to `self`
Newer(os, o) == {j \in DOMAIN os : j > o /\ os[j].sec /\ os[j].st = os[o].st}
NewerIds(os, o) == UNION {IdsOf(os[j].content) : j \in Newer(os, o)}

Res(ids, any, os) == [ids |-> ids, any |-> any, outs |-> os]
\* Output.write / write_raw / write_line_raw: one stream write behind the gate
Gated(os, o, f, t) == IF GateA(os[o].q, os[o].v, f) THEN Res({t}, TRUE, os) ELSE Res({}, FALSE, os)

\* SectionOutput.write, ANSI branch: erase the newer sections, record and write the text, re-emit what was erased.
\* The three inner Output.write calls carry no flags.
SecWrite(os, o, f, t) ==
  LET inner == GateA(os[o].q, os[o].v, NoFlags)
      added == [os EXCEPT ![o].content = Append(@, t)]
  IN IF Repaired /\ ~GateA(os[o].q, os[o].v, f) THEN Res({}, FALSE, os)
     ELSE IF inner THEN Res({t} \cup NewerIds(os, o), TRUE, added)
     ELSE Res({}, FALSE, added)

\* SectionOutput.clear(): only in the ANSI branch, only with recorded content and only when the section may write
\* (a quiet section keeps its content - nothing can be erased on its screen); cursor-up + erase + re-emission
SecClear(os, o, dec) ==
  IF ~dec \/ os[o].content = <<>> \/ ~GateA(os[o].q, os[o].v, NoFlags) THEN Res({}, FALSE, os)
  ELSE Res(NewerIds(os, o), TRUE, [os EXCEPT ![o].content = <<>>])

WriteLike(os, o, dec, f, t) == IF os[o].sec /\ dec THEN SecWrite(os, o, f, t) ELSE Gated(os, o, f, t)

\* method m of output o
Method(os, o, dec, m, f, t) ==
  CASE m \in {"write", "write_line"} -> WriteLike(os, o, dec, f, t)
    [] m \in {"write_raw", "write_line_raw"} -> Gated(os, o, f, t)
    [] m = "clear" -> SecClear(os, o, dec)
    [] m = "overwrite" -> LET c == SecClear(os, o, dec)
                              w == WriteLike(c.outs, o, dec, NoFlags, t)
                          IN Res(c.ids \cup w.ids, c.any \/ w.any, w.outs)

\* a call of entry (role, name) made on output o (role "io": routed by the entry)
TargetOf(role, name, o) == IF role = "io" THEN IOEntry(name).on ELSE o
MethodOf(role, name) == IF role = "io" THEN IOEntry(name).m ELSE name
\* P: the output a call addresses - an output's own methods: itself; IO.write*: the standard output, IO.error*: the
\* error output (their documented routing); any other I/O entry point: either
Addressed(role, name, os, o) == IF role # "io" THEN {o} ELSE IF name \in IOMethods THEN {IOEntry(name).on} ELSE DOMAIN os
Call(os, dec, role, name, o, f, t) == Method(os, TargetOf(role, name, o), dec, MethodOf(role, name), f, t)
OnStream(os, tgt, x, empty) == [s \in Streams |-> IF s = os[tgt].st THEN x ELSE empty]

\* ------------------------------------------------------------------ actions
Init == /\ obj \in [kind : Kinds, dec : Decs]
        /\ outs = OutsOf(obj.kind)
        /\ seen = {} /\ shut = {} /\ next = 1
        /\ last = [op |-> "init"]

Groups == IF RoleOf(obj.kind) = "io" THEN {{1}, {2}, {1, 2}} ELSE {{o} : o \in DOMAIN outs}

SetQuiet(g, q) ==
  /\ outs' = [o \in DOMAIN outs |-> IF o \in g THEN [outs[o] EXCEPT !.q = q] ELSE outs[o]]
  /\ last' = [op |-> "quiet", g |-> g, q |-> q]
  /\ UNCHANGED <<obj, seen, shut, next>>

SetVerbosity(g, v) ==
  /\ outs' = [o \in DOMAIN outs |-> IF o \in g THEN [outs[o] EXCEPT !.v = v] ELSE outs[o]]
  /\ last' = [op |-> "verbosity", g |-> g, v |-> v]
  /\ UNCHANGED <<obj, seen, shut, next>>

Write(name, o, f, sh) ==
  LET role == RoleOf(obj.kind)
      t == next
      tgt == TargetOf(role, name, o)
      res == Call(outs, obj.dec, role, name, o, f, t)
      adr == Addressed(role, name, outs, o)
  IN /\ next <= MaxTexts
     /\ name \in MethodsOf(role)
     /\ (HasFlags(role, name) \/ f = NoFlags)
     /\ outs' = res.outs
     /\ next' = next + 1
     /\ seen' = seen \cup res.ids
     /\ shut' = IF HasText(name) /\ \A x \in adr : ~Open(outs[x], f) THEN shut \cup {t} ELSE shut
     /\ last' = [op |-> "write", name |-> name, o |-> o, f |-> f, sh |-> sh, t |-> t, hasText |-> HasText(name), adr |-> adr,
                 ids |-> OnStream(outs, tgt, res.ids, {}), any |-> OnStream(outs, tgt, res.any, FALSE)]
     /\ UNCHANGED obj

\* Output.set_stream / set_formatter (IO.set_formatter for both outputs) after construction: the stream or formatter
\* is exchanged, quiet and verbosity stay what they are
Rewire(g) ==
  /\ last' = [op |-> "rewire", g |-> g]
  /\ UNCHANGED <<obj, outs, seen, shut, next>>

Next == \/ \E g \in Groups, q \in BOOLEAN : SetQuiet(g, q)
        \/ \E g \in Groups : obj.kind # "sections" /\ MaxTexts > 0 /\ Rewire(g)   \* (not in the setter-only run)
        \/ \E g \in Groups, v \in Verbs : SetVerbosity(g, v)
        \/ \E name \in SectionMethods \cup IOMethods, o \in DOMAIN outs, f \in Flags, sh \in TextShapes :
              (RoleOf(obj.kind) = "io" => o = 1) /\ Write(name, o, f, sh)

Spec == Init /\ [][Next]_vars

\* ------------------------------------------------------------------ the property
\* (Write leaves q and v unchanged, so the configuration a call met is still in `outs`.)
ClosedSilent == last.op = "write" =>
  /\ \A x \in last.adr : ~Open(outs[x], last.f) => (~last.any[outs[x].st] /\ last.ids[outs[x].st] = {})
  /\ (\A x \in last.adr : ~Open(outs[x], last.f)) => \A s \in Streams : ~last.any[s] /\ last.ids[s] = {}
OpenShows == (last.op = "write" /\ last.hasText /\ \A x \in last.adr : Open(outs[x], last.f)) =>
  \E s \in Streams : last.t \in last.ids[s]
NeverLeaks == seen \cap shut = {}
GateIsMayWrite == \A q \in BOOLEAN, v \in Levels, f \in FlagWords : GateA(q, v, f) = MayWrite(q, v, f)

\* "raising the verbosity or leaving quiet mode never removes anything that was shown before":
\* across a setter step that only opens, every call that shows its text before still shows it afterwards
Shows(os, dec, role, name, o, f) == 0 \in Call(os, dec, role, name, o, f, 0).ids
AtLeastAsOpen(a, b) == \A x \in DOMAIN a : (b[x].q => a[x].q) /\ b[x].v >= a[x].v
MonotoneStep ==
  (last'.op \in {"quiet", "verbosity"} /\ AtLeastAsOpen(outs, outs')) =>
     \A name \in MethodsOf(RoleOf(obj.kind)), o \in DOMAIN outs, f \in Flags :
        (HasText(name) /\ (HasFlags(RoleOf(obj.kind), name) \/ f = NoFlags)
          /\ Shows(outs, obj.dec, RoleOf(obj.kind), name, o, f)) => Shows(outs', obj.dec, RoleOf(obj.kind), name, o, f)
Monotone == [][MonotoneStep]_vars

TypeOK == /\ obj.kind \in Kinds /\ obj.dec \in Decs
          /\ \A o \in DOMAIN outs : outs[o].q \in BOOLEAN /\ outs[o].v \in Levels
          /\ seen \subseteq 1..MaxTexts /\ shut \subseteq 1..MaxTexts /\ next \in 1..(MaxTexts + 1)
=============================================================================
