----------------------------- MODULE OutputLines -----------------------------
(* clikit.api.io: the line writers of Output / SectionOutput / IO and the indentation scopes (Indent)
   (property C11, parts c and d)

   P-layer: LineOK - what a line writer puts on the stream: the lines of the text, every non-empty one prefixed by
            exactly the indentation in force, followed by exactly one newline; Restored - after a scope is left
            (normally or by an exception) the indentation that held when it was entered holds again.
   A-layer: Output._indent per output, the Indent objects (outputs covered + the values saved at construction,
            restored by __exit__), Output.write's per-line prefixing (non-empty lines only), write_line_raw's
            rstrip + newline without indentation, and the delegation of the I/O line writers.
            Modelled as repaired: IO.write_line_raw / error_line_raw call the outputs' write_line_raw
            (proposed_fixes/C11-io-line-raw.diff) and the plain branch of SectionOutput.write passes new_line on
            (proposed_fixes/C11-section-newline.diff).

   A text is a sequence of lines (the text split at "\n" - only a newline starts a new line), a line a sequence of
   symbols: 1-character strings (no blank, no newline) and stand-ins for the other characters some libraries take for
   line boundaries ("<CR>", "<VT>", "<FF>", "<FS>", "<GS>", "<RS>", "<NEL>", "<LS>", "<PS>") - ordinary text here.
   Trailing empty lines = the text ends in newlines: a line writer emits the text proper followed by exactly one
   newline - either appended to the text as given (n trailing newlines become n + 1: write_line) or with the trailing
   newlines normalised to one (the raw line writers); nothing in between.
   Outputs: 1 = standard / the only one, 2 = error output of an I/O.                                           *)
EXTENDS Integers, Sequences, FiniteSets, TLC

CONSTANTS Kinds,      \* subset of {"output", "section", "io", "iosec"}
          MaxNest,    \* bound on open scopes
          Ns,         \* indentation amounts
          Shapes      \* texts (sequences of lines) the line writers are given

VARIABLES kind,
          indent,    \* [outputs -> Nat]                          P and A
          scopes,    \* A: open Indent objects, innermost last: [g, saved]
          entered,   \* P: the indentation vectors in force when the open scopes were entered, innermost last
          last       \* observation of the last operation
vars == <<kind, indent, scopes, entered, last>>

NOuts(k) == IF k \in {"io", "iosec"} THEN 2 ELSE 1
Outs == 1..NOuts(kind)
IsIO == kind \in {"io", "iosec"}
\* scope levels: the whole I/O (both outputs) or one output
Levels == IF IsIO THEN {"io", "out", "err"} ELSE {"out"}
GroupOf(level) == CASE level = "io" -> {1, 2} [] level = "out" -> {1} [] level = "err" -> {2}

Spaces(n) == [k \in 1..n |-> " "]
NL == "\n"
RECURSIVE Join(_)
Join(ls) == IF Len(ls) = 0 THEN <<>> ELSE IF Len(ls) = 1 THEN ls[1] ELSE ls[1] \o <<NL>> \o Join(Tail(ls))

\* ------------------------------------------------------------------ P-layer
RECURSIVE SplitNL(_, _)
SplitNL(cs, cur) == IF cs = <<>> THEN <<cur>>
                    ELSE IF Head(cs) = NL THEN <<cur>> \o SplitNL(Tail(cs), <<>>) ELSE SplitNL(Tail(cs), Append(cur, Head(cs)))
AllSpaces(cs) == \A k \in 1..Len(cs) : cs[k] = " "
\* what arrived (SGR sequences stripped) for a text written by a line writer with indentation ind:
\* the text's lines, each non-empty one behind exactly ind spaces (raw writers: behind ind spaces or none - they write
\* "without formatting"), an empty one possibly as blanks, and exactly one newline after the last
\* n = number of newlines the text ends in; Body = the lines before them
RECURSIVE TrailingEmpty(_)
TrailingEmpty(lines) == IF Len(lines) > 1 /\ lines[Len(lines)] = <<>> THEN 1 + TrailingEmpty(SubSeq(lines, 1, Len(lines) - 1)) ELSE 0
Body(lines) == SubSeq(lines, 1, Len(lines) - TrailingEmpty(lines))
\* the parts of what arrived (split at newlines): the body's lines, then 1 or n + 1 newlines and nothing after them
CountOK(lines, got) == /\ Len(got) \in {Len(Body(lines)) + 1, Len(lines) + 1}
                       /\ got[Len(got)] = <<>>
                       /\ \A k \in (Len(Body(lines)) + 1)..Len(got) : AllSpaces(got[k])
LineOK(lines, delta, ind, raw) ==
  LET got == SplitNL(delta, <<>>)
  IN /\ CountOK(lines, got)
     /\ \A k \in 1..Len(Body(lines)) :
          IF lines[k] = <<>> THEN AllSpaces(got[k])
          ELSE \/ got[k] = Spaces(ind) \o lines[k]
               \/ (raw /\ got[k] = lines[k])

\* ------------------------------------------------------------------ A-layer: the writers
LineMethods(k) == IF k \in {"io", "iosec"} THEN {"write_line", "write_line_raw", "error_line", "error_line_raw"}
                  ELSE {"write_line", "write_line_raw"}
IsRaw(name) == name \in {"write_line_raw", "error_line_raw"}
OnOutput(name, o) == IF name \in {"error_line", "error_line_raw"} THEN 2 ELSE o
\* Output.write(new_line=True): " " * indent before every non-empty line, then "\n"
Formatted(lines, ind) == Join([k \in 1..Len(lines) |-> IF lines[k] = <<>> THEN <<>> ELSE Spaces(ind) \o lines[k]]) \o <<NL>>
\* Output.write_line_raw: string.rstrip("\n") + "\n"
RECURSIVE RStripNL(_)
RStripNL(cs) == IF cs # <<>> /\ cs[Len(cs)] = NL THEN RStripNL(SubSeq(cs, 1, Len(cs) - 1)) ELSE cs
Raw(lines) == RStripNL(Join(lines)) \o <<NL>>
Emitted(name, lines, ind) == IF IsRaw(name) THEN Raw(lines) ELSE Formatted(lines, ind)

\* ------------------------------------------------------------------ actions
Init == /\ kind \in Kinds
        /\ indent = [o \in 1..NOuts(kind) |-> 0]
        /\ scopes = <<>> /\ entered = <<>>
        /\ last = [op |-> "init"]

\* Indent.__init__: remembers the indentation of its outputs and sets / increments it at once
Enter(level, mode, n) ==
  /\ Len(scopes) < MaxNest /\ level \in Levels
  /\ LET g == GroupOf(level)
     IN /\ indent' = [o \in Outs |-> IF o \in g THEN (IF mode = "set" THEN n ELSE indent[o] + n) ELSE indent[o]]
        /\ scopes' = Append(scopes, [g |-> g, saved |-> indent])
        /\ entered' = Append(entered, indent)
        /\ last' = [op |-> "enter", level |-> level, mode |-> mode, n |-> n, ind |-> indent']

\* Indent.__exit__ - the same on a normal and on an exceptional exit (the exception is not swallowed)
Exit(how) ==
  /\ scopes # <<>>
  /\ LET top == scopes[Len(scopes)]
     IN /\ indent' = [o \in Outs |-> IF o \in top.g THEN top.saved[o] ELSE indent[o]]
        /\ last' = [op |-> "exit", how |-> how, ind |-> indent', was |-> entered[Len(entered)]]
  /\ scopes' = SubSeq(scopes, 1, Len(scopes) - 1)
  /\ entered' = SubSeq(entered, 1, Len(entered) - 1)

WriteLine(name, shape) ==
  /\ name \in LineMethods(kind)
  /\ LET o == OnOutput(name, 1)
     IN last' = [op |-> "line", name |-> name, lines |-> shape, raw |-> IsRaw(name), on |-> o,
                 deltas |-> [s \in 1..2 |-> IF s = o THEN Emitted(name, shape, indent[o]) ELSE <<>>], ind |-> indent]
  /\ UNCHANGED <<indent, scopes, entered>>

Next == /\ \/ \E level \in {"io", "out", "err"}, mode \in {"set", "incr"}, n \in Ns : Enter(level, mode, n)
           \/ \E how \in {"normal", "exception"} : Exit(how)
           \/ \E name \in LineMethods("io"), shape \in Shapes : WriteLine(name, shape)
        /\ UNCHANGED kind
Spec == Init /\ [][Next]_vars

\* ------------------------------------------------------------------ the property
LinesRight == last.op = "line" =>
  /\ LineOK(last.lines, last.deltas[last.on], indent[last.on], last.raw)
  /\ \A s \in 1..2 : s # last.on => last.deltas[s] = <<>>
Restored == last.op = "exit" => indent = last.was
\* A-layer coherence: the saved values of the open scopes are the indentation vectors of the P-layer
SavedCoherent == /\ Len(scopes) = Len(entered)
                 /\ \A k \in 1..Len(scopes) : \A o \in scopes[k].g : scopes[k].saved[o] = entered[k][o]
OutsideClosed == scopes = <<>> => \A o \in Outs : indent[o] = 0
=============================================================================
