SPECIFICATION LSpec
CONSTANTS
  Kinds <- AllKinds
  MaxNest = 1
  Ns <- NsTwo
  Shapes <- ShapesFull
  MaxOps = 2
INVARIANT LinesRight
INVARIANT EmitLines
