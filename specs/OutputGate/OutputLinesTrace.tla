-------------------------- MODULE OutputLinesTrace --------------------------
(* Recorded line-writer calls and indentation scopes on real Output / SectionOutput / IO objects, checked against
   OutputLines.  event (every event carries every key):
     op   "new" (kind, dec) | "enter" (level, mode, n) | "exit" (how, swallowed) | "line" (name, raw, lines, deltas)
     lines   the text as a list of lines (lists of 1-character strings)
     deltas  per stream what arrived during the call, as 1-character strings; an SGR sequence is the symbol "<SGR>",
             any other escape sequence "<ESC>"
     ind     Output._indent of every output after the operation (A-layer observation)
   P-clauses: P.line.newline  the text's lines arrive unaltered, in order, on one stream (only "\n" separates lines),
                              followed by exactly one newline (appended to the text as given, or the text's own
                              trailing newlines normalised to one)
              P.indent.prefix every non-empty line is behind exactly the indentation in force (raw writers: that or none)
   Restored (INVARIANT) holds by construction of the P-state; what the code does after a scope is seen by the next lines. *)
EXTENDS OutputLines, TraceKit

VARIABLES tid, l, dec
tvars == <<vars, tid, l, dec>>
T == Traces[tid]
Ev == T[l]

TKinds == {"output", "section", "io", "iosec", "?"}
TNs == 0..1000
TShapes == {}

TInit == /\ tid \in 1..NTraces /\ l = 1 /\ dec = FALSE
         /\ kind = "?" /\ indent = <<0>> /\ scopes = <<>> /\ entered = <<>> /\ last = [op |-> "init"]
Adv == l' = l + 1 /\ tid' = tid
Is(op) == l <= Len(T) /\ Ev.op = op

TNew == /\ Is("new") /\ Adv
        /\ Check(tid, l, "P.route.exists", Ev.kind \o ":" \o Ev.res, Ev.res = "ok")   \* every object of the family can be built
        /\ Check(tid, l, "H.new", "", Ev.kind \in {"output", "section", "io", "iosec"})
        /\ kind' = Ev.kind /\ dec' = Ev.dec
        /\ indent' = [o \in 1..NOuts(Ev.kind) |-> 0]
        /\ scopes' = <<>> /\ entered' = <<>> /\ last' = [op |-> "new"]

TEnter == /\ Is("enter") /\ Adv /\ UNCHANGED <<kind, dec>>
          /\ Check(tid, l, "H.enter", "", Ev.level \in Levels /\ Ev.mode \in {"set", "incr"} /\ Ev.n \in Nat)
          /\ Check(tid, l, "P.indent.scope", "enter:" \o Ev.res, Ev.res = "ok")      \* every scope of the family can be opened
          /\ Enter(Ev.level, Ev.mode, Ev.n)
          /\ Note(tid, l, "A.indent", Ev.ind = indent')

TExit == /\ Is("exit") /\ Adv /\ UNCHANGED <<kind, dec>>
         /\ Check(tid, l, "H.exit", "", scopes # <<>>)
         /\ Check(tid, l, "P.indent.scope", "exit:" \o Ev.res, Ev.res = "ok")        \* ... and left
         /\ Exit(Ev.how)
         /\ Note(tid, l, "A.indent", Ev.ind = indent')
         /\ Note(tid, l, "A.exit.propagates", ~Ev.swallowed)

Mode == IF dec THEN "/ansi" ELSE "/plain"
Visible(cs) == SelectSeq(cs, LAMBDA c : c # "<SGR>")
RECURSIVE DropSpaces(_)
DropSpaces(cs) == IF cs # <<>> /\ Head(cs) = " " THEN DropSpaces(Tail(cs)) ELSE cs
Lead(cs) == Len(cs) - Len(DropSpaces(cs))
\* the lines arrive in order, each after blanks only, and exactly one newline follows the last
NewlineOK(lines, delta) ==
  LET got == SplitNL(delta, <<>>)
  IN /\ CountOK(lines, got)
     /\ \A k \in 1..Len(Body(lines)) : DropSpaces(got[k]) = lines[k]
PrefixOK(lines, delta, ind, raw) ==
  LET got == SplitNL(delta, <<>>)
  IN \A k \in 1..Len(lines) : (k <= Len(got) /\ lines[k] # <<>>) => (Lead(got[k]) = ind \/ (raw /\ Lead(got[k]) = 0))

TLine ==
  /\ Is("line") /\ Adv /\ UNCHANGED <<kind, dec, indent, scopes, entered>>
  /\ LET e == Ev
         key == kind \o "." \o e.name \o Mode
         hit == {s \in Outs : e.deltas[s] # <<>>}
     IN /\ Check(tid, l, "H.line", "", Len(e.deltas) = 2 /\ \A k \in 1..Len(e.lines) : \A i \in 1..Len(e.lines[k]) : e.lines[k][i] \notin {" ", NL})
        /\ Check(tid, l, "P.line.newline", key,
                 e.res = "ok" /\ \E s \in Outs : /\ NewlineOK(e.lines, Visible(e.deltas[s]))
                                                 /\ \A s2 \in 1..2 : s2 # s => e.deltas[s2] = <<>>)
        /\ Check(tid, l, "P.indent.prefix", key,
                 \A s \in hit : PrefixOK(e.lines, Visible(e.deltas[s]), indent[s], e.raw))
        /\ last' = [op |-> "line"]
        /\ IF e.name \in LineMethods(kind)
           THEN Note(tid, l, "A.line", \A s \in 1..2 : e.deltas[s] = (IF s = OnOutput(e.name, 1) THEN Emitted(e.name, e.lines, indent[s]) ELSE <<>>))
           ELSE TRUE
        /\ Note(tid, l, "A.indent", e.ind = indent)

TDone == /\ l = Len(T) + 1 /\ l' = l + 1 /\ tid' = tid /\ UNCHANGED <<vars, dec>> /\ Accept(tid)

TNext == TNew \/ TEnter \/ TExit \/ TLine \/ TDone
TSpec == TInit /\ [][TNext]_tvars
=============================================================================
