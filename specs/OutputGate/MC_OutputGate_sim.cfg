SPECIFICATION HSpec
CONSTANTS
  Kinds <- SeqKindsAll
  Decs <- BothDecs
  NSecs = 3
  MaxTexts = 12
  Flags <- FlagWords
  Verbs <- Levels
  TextShapes <- OnePlain
  Repaired = TRUE
  Depth = 12
  SeqLevels <- Levels
  SeqFlags <- FlagWords
  SeqRewire = TRUE
  SeqNames <- AllNames
INVARIANT ClosedSilent
INVARIANT OpenShows
INVARIANT NeverLeaks
INVARIANT Emit
