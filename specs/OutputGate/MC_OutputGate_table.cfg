SPECIFICATION TSpec
CONSTANTS
  Kinds <- TableKinds
  Decs <- BothDecs
  NSecs = 2
  MaxTexts = 1
  Flags <- FlagWords
  Verbs <- Levels
  TextShapes <- MarkShapes
  Repaired = TRUE
  Depth = 2
  SeqLevels <- QuickLevels
  SeqFlags <- QuickFlags
  SeqRewire = FALSE
  SeqNames <- SecNames
INVARIANT ClosedSilent
INVARIANT OpenShows
INVARIANT NeverLeaks
INVARIANT EmitTable
