-------------------------- MODULE MC_OutputLines --------------------------
(* Uses of OutputLines:
   BSpec  plain BFS: every nesting up to MaxNest of set/increment scopes at I/O and single-output level, both exits,
          every line writer x text shape in every reachable indentation state (invariants);
   LSpec  the line-writer table: [optionally one scope] ; [one line writer call]  - emitted for replay;
   PSpec  scope programs: every well-nested sequence of at most MaxOps Enter/Exit operations; after each operation a
          probe text is written through the formatting line writer of every output (expected result in `probes`);
          emitted whenever all scopes are closed again.                                                         *)
EXTENDS OutputLines, Json

CONSTANTS MaxOps
VARIABLE hist
hvars == <<vars, hist>>

AllKinds == {"output", "section", "io", "iosec"}
IOKinds == {"io", "iosec"}
NsFull == {0, 2, 3}
NsTwo == {2, 3}
NsOne == {2}
A == <<"a">>
B == <<"b", "<CR>", "c">>                     \* a carriage return is not a line boundary
C == <<"<VT>", "d", "<NEL>", "<LS>", "U", "<FF>", "<FS>", "<GS>", "<RS>", "<PS>">>     \* U: a non-ASCII letter
E == <<>>
ShapesFull == {<<A>>, <<A, E, B>>, <<E, A>>, <<E>>, <<B, C, A>>, <<A, E>>, <<C, E, E>>, <<E, E, E>>}
ShapesFew == {<<A>>, <<A, E, B>>, <<C, E, E>>}
ProbeShape == <<A, <<>>, B>>

HInit == Init /\ hist = <<>>
BSpec == HInit /\ [][Next /\ UNCHANGED hist]_hvars

\* ---- line-writer table
LNext == /\ \/ /\ hist = <<>>
               /\ \E level \in {"io", "out", "err"}, n \in Ns : Enter(level, "set", n)
            \/ /\ Len(hist) <= 1 /\ (hist # <<>> => hist[1].op = "enter")
               /\ \E name \in LineMethods("io"), shape \in Shapes : WriteLine(name, shape)
         /\ UNCHANGED kind
         /\ hist' = Append(hist, last')
LSpec == HInit /\ [][LNext]_hvars
EmitLines == (hist # <<>> /\ hist[Len(hist)].op = "line") => PrintT(ToJson([kind |-> kind, ops |-> hist]))

\* ---- scope programs with probes
Probes(ind) == [o \in DOMAIN ind |-> Formatted(ProbeShape, ind[o])]
PNext == /\ Len(hist) < MaxOps
         /\ \/ \E level \in {"io", "out", "err"}, mode \in {"set", "incr"}, n \in Ns : Enter(level, mode, n)
            \/ \E how \in {"normal", "exception"} : Exit(how)
         /\ UNCHANGED kind
         /\ hist' = Append(hist, [op |-> last'.op, level |-> IF last'.op = "enter" THEN last'.level ELSE "",
                                  mode |-> IF last'.op = "enter" THEN last'.mode ELSE "", n |-> IF last'.op = "enter" THEN last'.n ELSE 0,
                                  how |-> IF last'.op = "exit" THEN last'.how ELSE "", ind |-> last'.ind, probes |-> Probes(indent')])
PSpec == HInit /\ [][PNext]_hvars
EmitPrograms == (hist # <<>> /\ scopes = <<>>) => PrintT(ToJson([kind |-> kind, ops |-> hist]))
=============================================================================
