SPECIFICATION TSpec
CONSTANTS
  Kinds <- TKinds
  MaxNest = 1000
  Ns <- TNs
  Shapes <- TShapes
INVARIANT Restored
INVARIANT SavedCoherent
