SPECIFICATION BSpec
CONSTANTS
  Kinds <- AllKinds
  MaxNest = 3
  Ns <- NsFull
  Shapes <- ShapesFew
  MaxOps = 0
INVARIANT LinesRight
INVARIANT Restored
INVARIANT SavedCoherent
INVARIANT OutsideClosed
