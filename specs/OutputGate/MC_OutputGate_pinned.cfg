SPECIFICATION BSpec
CONSTANTS
  Kinds <- OnlySections
  Decs <- BothDecs
  NSecs = 2
  MaxTexts = 3
  Flags <- QuickFlags
  Verbs <- QuickLevels
  TextShapes <- OnePlain
  Repaired = FALSE
  Depth = 0
  SeqLevels <- QuickLevels
  SeqFlags <- QuickFlags
  SeqRewire = FALSE
  SeqNames <- SecNames
INVARIANT TypeOK
INVARIANT ClosedSilent
INVARIANT OpenShows
INVARIANT NeverLeaks
