SPECIFICATION SpecR
CONSTANTS
  RunLen = 3
INVARIANT EmitR
