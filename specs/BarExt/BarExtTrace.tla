---------------------------- MODULE BarExtTrace ----------------------------
(* Observations of the real format_time / ProgressBar against BarExt.  One event per trace, by kind:
     "time"    [t, text]                                          format_time(t / 1024) as characters ("None" for None)
     "place"   [e, step, max, spec, exc, elapsed, remaining, estimated, percent, unknown1, unknown2, getter]
               the placeholder texts of one frame, two placeholders nobody defined, get_progress_percent() as num/den
     "redraw"  [f, mingap, max, run, drew]                        which advance() calls of a run wrote a frame
     "multi"   [msg, max, calls, ops]                             what every draw / clear put on the stream
   Extension: every clause is an A-clause (Note -> DRIFT).                                                          *)
EXTENDS BarExt, TraceKit
LOCAL INSTANCE SequencesExt
VARIABLES tid, l
tvars == <<tid, l>>
T == Traces[tid]
E == T[l]
TInit == tid \in 1..NTraces /\ l = 1
Adv == l <= Len(T) /\ l' = l + 1 /\ tid' = tid

TTime == /\ Adv /\ E.kind = "time"
         /\ Note(tid, l, "A.ext.format_time", E.text = FormatTime(E.t))

TPlace == /\ Adv /\ E.kind = "place"
          /\ LET m == Placeholders(E.e, E.step, E.max, E.spec[1], E.spec[2], E.spec[3], E.spec[4]) IN
             /\ Note(tid, l, "A.ext.place.exc", E.exc = m.exc)
             /\ Note(tid, l, "A.ext.place.elapsed", E.exc # "" \/ E.elapsed = m.elapsed)
             /\ Note(tid, l, "A.ext.place.remaining", E.exc # "" \/ E.remaining = m.remaining)
             /\ Note(tid, l, "A.ext.place.estimated", E.exc # "" \/ E.estimated = m.estimated)
             /\ Note(tid, l, "A.ext.place.percent", E.exc # "" \/ E.percent = m.percent)
             /\ Note(tid, l, "A.ext.place.unknown", E.exc # "" \/ (E.unknown1 = Unknown1 /\ E.unknown2 = Unknown2))
             /\ Note(tid, l, "A.ext.place.getter", E.exc # "" \/ GetterOK(E.getter[1], E.getter[2], E.step, E.max))

TRedraw == /\ Adv /\ E.kind = "redraw"
           /\ Note(tid, l, "A.ext.redraw", E.drew = DrawList(E.f, E.mingap, E.max, E.run))

\* the observed ops are interpreted on the terminal as well: the same screen, and the same "frames pile up" answer
ObservedScreen(opss, w) == Screen(FoldLeft(LAMBDA t, ops : ApplyOps(t, ops), TermNew(w), opss))
TMulti == /\ Adv /\ E.kind = "multi"
          /\ LET m == MultiRun(E.msg, E.max, 40, E.calls) IN
             /\ Note(tid, l, "A.ext.multiline.ops", E.ops = m.ops)
             /\ Note(tid, l, "A.ext.multiline.screen", ObservedScreen(E.ops, 40) = m.screen)

TDone == /\ l = Len(T) + 1 /\ l' = l + 1 /\ tid' = tid /\ Accept(tid)
TNext == TTime \/ TPlace \/ TRedraw \/ TMulti \/ TDone
TSpec == TInit /\ [][TNext]_tvars
=============================================================================
