SPECIFICATION SpecP
CONSTANTS
  RunLen = 3
INVARIANT EmitP
