SPECIFICATION TSpec
