SPECIFICATION SpecM
CONSTANTS
  RunLen = 3
INVARIANT EmitM
