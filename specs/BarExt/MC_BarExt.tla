----------------------------- MODULE MC_BarExt -----------------------------
(* Instance enumeration for BarExt: one initial state per instance, no steps; the Emit* "invariants" print each instance
   with the model's answer as JSON; harness/props/ext_bar.py replays every one on the real code.                      *)
EXTENDS BarExt, Json, TLC

CONSTANTS RunLen                                             \* calls per redraw-frequency run
VARIABLE x
Stay == UNCHANGED x

\* ---- format_time: around every bound of the table (seconds), exact ticks next to it, far inside, beyond a week
Bounds == {0, 2, 59, 60, 3600, 5400, 86400, 129600, 604800}
TimeInstances == {b * TPS + d : b \in Bounds, d \in {0 - TPS, -1, 0, 1, TPS, 37 * TPS + 500}}
                 \cup {512, 1536, 3 * TPS, 100 * TPS, 7000 * TPS, 700000 * TPS, 2000000 * TPS, 0 - 5 * TPS}
InitT == x \in TimeInstances
SpecT == InitT /\ [][Stay]_x
EmitT == PrintT(ToJson([t |-> x, text |-> FormatTime(x)]))

\* ---- placeholders: elapsed x step x max x width suffixes  (e * max stays below 2^31)
PlaceInstances ==
  {[e |-> e, step |-> s, max |-> m, spec |-> sp] :
     e \in {0, 1, 512, 1024, 1536, 2048, 2049, 2560, 3 * TPS, 59 * TPS, 60 * TPS + 1, 61 * TPS, 3600 * TPS, 5000 * TPS},
     m \in {0, 1, 3, 10, 200}, s \in {0, 1, 2, 3, 7, 10, 58, 200}, sp \in {<<0, 0, 0, 0>>, <<6, -6, -6, 3>>, <<-9, 12, 2, 1>>}}
InitP == x \in {i \in PlaceInstances : i.step <= i.max \/ i.max = 0} \cup
         {[e |-> 700000 * TPS, step |-> 1, max |-> 1, spec |-> <<6, 6, -6, 3>>]}
SpecP == InitP /\ [][Stay]_x
EmitP == PrintT(ToJson([inst |-> x, out |-> Placeholders(x.e, IF x.max = 0 THEN 0 ELSE x.step, x.max, x.spec[1], x.spec[2], x.spec[3], x.spec[4])]))

\* ---- redraw frequency: every run of RunLen calls <<dt, k>>
Calls == {<<0, 1>>, <<0, 2>>, <<0, 7>>, <<2048, 1>>, <<51, 1>>, <<0, 0>>}
RECURSIVE Runs(_)
Runs(n) == IF n = 0 THEN {<<>>} ELSE {Append(r, c) : r \in Runs(n - 1), c \in Calls}
InitR == x \in {[f |-> f, mingap |-> g, max |-> m, run |-> r] : f \in {-1, 0, 1, 2, 3, 5}, g \in {0, 103}, m \in {0, 10}, r \in Runs(RunLen)}
SpecR == InitR /\ [][Stay]_x
EmitR == PrintT(ToJson([inst |-> x, drew |-> DrawList(x.f, x.mingap, x.max, x.run)]))

\* ---- a message with a line break
Msgs == {<< <<"a", "b">>, <<"c", "d">> >>, << <<"a">>, <<"b", "c", "d", "e">> >>, << <<"a", "b", "c">>, <<>> >>,
         << <<>>, <<"y">> >>, << <<"p">>, <<"q">>, <<"r">> >>, << <<"x">> >>}
RECURSIVE CallSeqs(_)
CallSeqs(n) == IF n = 0 THEN {<<>>} ELSE CallSeqs(n - 1) \cup {Append(r, c) : r \in {q \in CallSeqs(n - 1) : Len(q) = n - 1}, c \in {"draw", "clear"}}
InitM == x \in {[msg |-> m, max |-> mx, calls |-> c] : m \in Msgs, mx \in {3, 12}, c \in CallSeqs(3)}
SpecM == InitM /\ [][Stay]_x
EmitM == PrintT(ToJson([inst |-> x, out |-> MultiRun(x.msg, x.max, 40, x.calls)]))
=============================================================================
