------------------------------- MODULE BarExt -------------------------------
(* Extension of the ProgressBar specification beyond property C16 (every clause here is an A-clause: a difference
   between this module and the code is DRIFT, never a violation).  Transcribed from progress_bar.py / utils/time.py:

     FormatTime        format_time as the piecewise function it is, incl. what lies beyond a week
     Elapsed / Remaining / Estimated / Percent   the placeholder family of the verbose formats under the virtual clock,
                       with the %name:Ns% / %name:-Ns% width suffix
     DrawList          set_redraw_frequency and the redraw decision of a run of advance() calls
     MultiRun          a message with a line break in a one-line format: what reaches the terminal on every draw, and
                       whether frames pile up on the screen (an observation, not a verdict)

   Time is in ticks of 1/1024 s (the harness' virtual clock), texts are sequences of 1-character strings.           *)
EXTENDS Integers, Sequences, Terminal
LOCAL INSTANCE SequencesExt

TPS == 1024                                                  \* ticks per second

DigitChars == <<"0", "1", "2", "3", "4", "5", "6", "7", "8", "9">>
RECURSIVE Digits(_)
Digits(n) == IF n < 10 THEN <<DigitChars[n + 1]>> ELSE Digits(n \div 10) \o <<DigitChars[(n % 10) + 1]>>
Number(n) == IF n < 0 THEN <<"-">> \o Digits(0 - n) ELSE Digits(n)
RJust(s, n) == Blanks(n - Len(s)) \o s
LJust(s, n) == s \o Blanks(n - Len(s))
\* the width suffix of a placeholder: 0 = none, n > 0 = ":ns" (right-justified), n < 0 = ":-ns" (left-justified)
Field(text, spec) == IF spec > 0 THEN RJust(text, spec) ELSE IF spec < 0 THEN LJust(text, 0 - spec) ELSE text

\* ------------------------------------------------------------------ format_time
CeilDiv(a, b) == (a + b - 1) \div b                          \* a > 0
Counted(t, unit, word) == Digits(CeilDiv(t, TPS * unit)) \o <<" ">> \o word
FormatTime(t) ==                                             \* t: ticks; the table is walked top-down, "secs > bound: next"
  IF t <= 0 THEN <<"<", " ", "1", " ", "s", "e", "c">>
  ELSE IF t <= 2 * TPS THEN <<"1", " ", "s", "e", "c">>
  ELSE IF t <= 59 * TPS THEN Counted(t, 1, <<"s", "e", "c", "s">>)
  ELSE IF t <= 60 * TPS THEN <<"1", " ", "m", "i", "n">>
  ELSE IF t <= 3600 * TPS THEN Counted(t, 60, <<"m", "i", "n", "s">>)
  ELSE IF t <= 5400 * TPS THEN <<"1", " ", "h", "r">>
  ELSE IF t <= 86400 * TPS THEN Counted(t, 3600, <<"h", "r", "s">>)
  ELSE IF t <= 129600 * TPS THEN <<"1", " ", "d", "a", "y">>
  ELSE IF t <= 604800 * TPS THEN Counted(t, 86400, <<"d", "a", "y", "s">>)
  ELSE <<"N", "o", "n", "e">>                                \* beyond a week the table is exhausted: the function
                                                             \* returns None and the bar prints str(None)

\* ------------------------------------------------------------------ placeholders (e: ticks since start(), max > 0)
\* Python's round(): to the nearest integer, ties to the even one
RoundHalfEven(num, den) ==
  LET q == num \div den  r == num % den IN
  IF 2 * r < den THEN q ELSE IF 2 * r > den THEN q + 1 ELSE IF q % 2 = 0 THEN q ELSE q + 1
Elapsed(e) == FormatTime(e)
\* estimated: round(elapsed / step * max) SECONDS, printed as the bare number (it is not passed through format_time)
Estimated(e, step, max) == IF step = 0 THEN 0 ELSE RoundHalfEven(e * max, TPS * step)
\* remaining: round(elapsed / step * (max - max)) = 0 whatever the progress: the code multiplies by max - max
Remaining(e, step, max) == FormatTime(0)
Percent(step, max) == IF max = 0 THEN 0 ELSE (100 * step) \div max
\* a placeholder the bar knows nothing about stays in the frame verbatim, width suffix included
Unknown1 == <<"%", "n", "o", "s", "u", "c", "h", "%">>
Unknown2 == <<"%", "n", "o", "s", "u", "c", "h", ":", "4", "s", "%">>
\* get_progress_percent() is the fraction step / max (0 without a maximum): num/den given in lowest terms
GetterOK(num, den, step, max) == IF max = 0 THEN num = 0 ELSE num * max = den * step
Placeholders(e, step, max, se, sr, ss, sp) ==
  IF max = 0 THEN [exc |-> "RuntimeError", elapsed |-> <<>>, remaining |-> <<>>, estimated |-> <<>>, percent |-> <<>>]
  ELSE [exc |-> "", elapsed |-> Field(Elapsed(e), se), remaining |-> Field(Remaining(e, step, max), sr),
        estimated |-> Field(Number(Estimated(e, step, max)), ss), percent |-> Field(Number(Percent(step, max)), sp)]

\* ------------------------------------------------------------------ redraw frequency
\* ProgressBar(io, max, mingap); set_redraw_frequency(f); start(); then advance(k) after dt ticks, for every <<dt, k>> of run.
\* redraw_freq is None when a minimum interval is configured (then the setter does nothing), else max(f, 1).
MaxGap == TPS
DrawStep(acc, call, f, mingap) ==
  LET since == TMin(MaxGap, acc.since + call[1])
      n     == acc.step + call[2]
      max1  == IF acc.max > 0 /\ n > acc.max THEN n ELSE acc.max
      Period(x) == IF mingap > 0 THEN (IF max1 > 0 THEN (10 * x) \div max1 ELSE x)
                   ELSE x \div (IF f >= 1 THEN f ELSE 1)
      drew  == IF n = max1 THEN TRUE
               ELSE IF since < mingap THEN FALSE
               ELSE Period(acc.step) # Period(n) \/ since >= MaxGap
  IN [step |-> n, max |-> max1, since |-> IF drew THEN 0 ELSE since, out |-> Append(acc.out, drew)]
DrawList(f, mingap, max, run) ==
  FoldLeft(LAMBDA acc, call : DrawStep(acc, call, f, mingap), [step |-> 0, max |-> max, since |-> 0, out |-> <<>>], run).out

\* ------------------------------------------------------------------ a message with a line break
\* format "%message% %current%/%max%" (one line: format_line_count = 0) on an ANSI output; msg = the lines of the message.
\* Every draw: carriage return, then the frame's lines, each padded to the longest line of the previous write, joined by
\* new lines - the cursor is NOT moved up, although the previous frame was several rows high.
JoinOps(ls) == FoldLeft(LAMBDA acc, k : acc \o (IF k > 1 THEN <<OpLF>> ELSE <<>>)
                                            \o (IF ls[k] = <<>> THEN <<>> ELSE <<OpText(ls[k])>>),
                        <<>>, [k \in 1..Len(ls) |-> k])
MaxLen(ls) == FoldLeft(LAMBDA acc, x : TMax(acc, Len(x)), 0, ls)
Write(acc, lines) ==
  LET ls == [k \in 1..Len(lines) |-> LJust(lines[k], acc.lastLen)]
      ops == <<OpCR>> \o JoinOps(ls)
  IN [acc EXCEPT !.lastLen = MaxLen(ls), !.term = ApplyOps(acc.term, ops), !.out = Append(acc.out, ops)]
\* call: "draw" = advance() (no throttle, frequency 1: always drawn), "clear" = clear()
\* (the width of the step field stays that of the initial maximum; the maximum grows with the step)
Frame(msg, step, max, max0) ==
  LET tail == <<" ">> \o RJust(Digits(step), Len(Digits(max0))) \o <<"/">> \o Digits(max) IN
  SubSeq(msg, 1, Len(msg) - 1) \o <<msg[Len(msg)] \o tail>>
MultiStep(acc, call, msg, max0) ==
  IF call = "draw" THEN
    LET n == acc.step + 1
        m == IF n > acc.max THEN n ELSE acc.max
        f == Frame(msg, n, m, max0)
    IN [Write([acc EXCEPT !.step = n, !.max = m], f) EXCEPT !.frame = f]
  ELSE [Write(acc, << <<>> >>) EXCEPT !.frame = <<>>]
MultiRun(msg, max, w, calls) ==
  LET f0 == Frame(msg, 0, max, max)
      first == Write([step |-> 0, max |-> max, lastLen |-> 0, term |-> TermNew(w), out |-> <<>>, frame |-> <<>>], f0)
      a == FoldLeft(LAMBDA acc, c : MultiStep(acc, c, msg, max), [first EXCEPT !.frame = f0], calls)
  IN [ops |-> a.out, screen |-> Screen(a.term),
      \* the observation: more rows on screen than the frame on display has (earlier frames' first lines stay above)
      stacked |-> Len(Screen(a.term)) > Len(a.frame)]
=============================================================================
