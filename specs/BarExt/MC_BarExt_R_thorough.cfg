SPECIFICATION SpecR
CONSTANTS
  RunLen = 5
INVARIANT EmitR
