SPECIFICATION SpecT
CONSTANTS
  RunLen = 3
INVARIANT EmitT
