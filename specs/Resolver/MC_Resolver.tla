---------------------------- MODULE MC_Resolver ----------------------------
(* Tree family: fixed skeleton  a(a1){ c(c1){ e(e1) }, d }, b  with kinds / enabled / strict varied; lines =
   every token sequence up to MaxPath over names, aliases and an unknown word, followed by a suffix
   (nothing, an argument, an option, option + argument, "--" + a command name, "--" + a word).            *)
EXTENDS Resolver, Json
CONSTANTS MaxPath, Family

N(parent, name, aliases, kind, enabled, hidden, strict) ==
  [parent |-> parent, name |-> name, aliases |-> aliases, kind |-> kind, enabled |-> enabled, hidden |-> hidden, strict |-> strict]
Kinds == {"plain", "default", "anon"}
\* id: 1 a, 2 b, 3 a/c, 4 a/d, 5 a/c/e
Trees ==
  IF Family = "quick" THEN
    { << N(0, <<"a">>, <<<<"a", "1">>>>, "plain", TRUE, FALSE, FALSE),
         N(0, <<"b">>, <<>>, kb, TRUE, hb, sb),
         N(1, <<"c">>, <<<<"c", "1">>>>, kc, TRUE, FALSE, sc),
         N(1, <<"d">>, <<>>, kd, ed, FALSE, sd),
         N(3, <<"e">>, <<<<"e", "1">>>>, ke, TRUE, FALSE, se) >> :
      kb \in Kinds, hb \in {FALSE}, sb \in {FALSE}, kc \in Kinds, sc \in BOOLEAN, kd \in {"plain", "default"}, ed \in BOOLEAN,
      sd \in {TRUE}, ke \in {"plain", "default"}, se \in {TRUE} }
  ELSE
    { << N(0, <<"a">>, <<<<"a", "1">>>>, ka, TRUE, FALSE, sa),
         N(0, <<"b">>, <<>>, kb, eb, FALSE, sb),
         N(1, <<"c">>, <<<<"c", "1">>>>, kc, TRUE, hc, sc),
         N(1, <<"d">>, <<>>, kd, ed, FALSE, sd),
         N(3, <<"e">>, <<<<"e", "1">>>>, ke, ee, FALSE, se) >> :
      ka \in {"plain", "default"}, sa \in BOOLEAN, kb \in Kinds, eb \in BOOLEAN, sb \in BOOLEAN, kc \in Kinds, hc \in BOOLEAN,
      sc \in BOOLEAN, kd \in Kinds, ed \in BOOLEAN, sd \in BOOLEAN, ke \in Kinds, ee \in BOOLEAN, se \in BOOLEAN }
PathToks == { <<"a">>, <<"a", "1">>, <<"b">>, <<"c">>, <<"c", "1">>, <<"d">>, <<"e">>, <<"x">> }
OPTV == <<"-", "-", "o", "p", "t", "=", "v">>
Suffixes == { <<>>, <<<<"x">>>>, <<<<"-", "g">>>>, <<<<"-", "g">>, <<"c">>>>, <<OPTV, <<"c">>>>, <<OPTV, <<"d">>, <<"-", "g">>>>, <<DD, <<"c">>>>, <<DD, <<"x">>>> }
Prefixes == UNION { [1..k -> PathToks] : k \in 0..MaxPath }

Init == \E tr \in Trees, p \in Prefixes, s \in Suffixes : Start(tr, p \o s)
Spec == Init /\ [][Step]_vars
\* for -simulate on the full family: the tree is reached by random attribute changes, then a line is chosen
Skeleton == << N(0, <<"a">>, <<<<"a", "1">>>>, "plain", TRUE, FALSE, FALSE), N(0, <<"b">>, <<>>, "plain", TRUE, FALSE, FALSE),
               N(1, <<"c">>, <<<<"c", "1">>>>, "plain", TRUE, FALSE, FALSE), N(1, <<"d">>, <<>>, "plain", TRUE, FALSE, FALSE),
               N(3, <<"e">>, <<<<"e", "1">>>>, "plain", TRUE, FALSE, FALSE) >>
BInit == /\ tree = Skeleton /\ line = <<>> /\ phase = "build" /\ lead = <<>> /\ cur = 0 /\ i = 1 /\ cand = 0 /\ outcome = Pending
Mutate == /\ phase = "build"
          /\ \E n \in 1..Len(tree) :
               \/ \E k \in Kinds : tree' = [tree EXCEPT ![n].kind = k]
               \/ tree' = [tree EXCEPT ![n].enabled = ~@]
               \/ tree' = [tree EXCEPT ![n].strict = ~@]
               \/ tree' = [tree EXCEPT ![n].hidden = ~@]
          /\ UNCHANGED <<line, phase, lead, cur, i, cand, outcome>>
Go == /\ phase = "build"
      /\ \E p \in Prefixes, s \in Suffixes : line' = p \o s
      /\ phase' = "leading" /\ UNCHANGED <<tree, lead, cur, i, cand, outcome>>
SimSpec == BInit /\ [][Mutate \/ Go \/ Step]_vars
Emit == Done => PrintT(ToJson([tree |-> tree, line |-> line, outcome |-> outcome, parsable |-> RuleParsable,
                               alive |-> [n \in 1..Len(tree) |-> Alive(tree, n)]]))
=============================================================================
