SPECIFICATION Spec
CONSTANTS
  MaxPath = 3
  Family = "quick"
INVARIANT SelectsAsStated
INVARIANT DescendFollowsPath
INVARIANT AliasLaw
INVARIANT OptionLaw
INVARIANT SeparatorLaw
INVARIANT HiddenIrrelevant
INVARIANT Emit
