SPECIFICATION TSpec
