------------------------------ MODULE Resolver ------------------------------
(* clikit.resolver.DefaultResolver + CommandCollection + ConsoleApplication.resolve_command   (property C03)

   tree  = sequence of nodes [parent (0 = application level), name, aliases, kind ("plain"|"default"|"anon"),
           enabled, hidden, strict]; ids are positions, declaration order = id order.  Names/tokens are sequences of
           1-character strings.  strict = the command parses strictly and declares no argument: any positional beyond its own name path is
           "too many arguments"; a non-strict command parses leniently and accepts every line.
   P-layer: Lead (leading non-option tokens), Path (longest prefix naming a path of commands), Allowed (the path's
            last command, or its default sub-commands; at application level the default commands), OutcomeOK.
   A-layer: the resolver as the code runs it: Leading, Descend (one step per token), Pick (first parsable default,
            else first default, else the command itself), Final (re-raise the candidate's parse error).           *)
EXTENDS Integers, Sequences, FiniteSets, TLC

DD == <<"-", "-">>
IsDash(t) == Len(t) >= 1 /\ t[1] = "-"

\* ------------------------------------------------------------------ the tree
RECURSIVE Alive(_, _)          \* a command exists iff it and all its ancestors are enabled
Alive(tree, n) == n = 0 \/ (tree[n].enabled /\ Alive(tree, tree[n].parent))
Kids(tree, p) == { n \in 1..Len(tree) : tree[n].parent = p /\ Alive(tree, n) }
NamedKids(tree, p) == { n \in Kids(tree, p) : tree[n].kind # "anon" }
DefaultKids(tree, p) == { n \in Kids(tree, p) : tree[n].kind \in {"default", "anon"} }
Names(nd) == {nd.name} \cup { nd.aliases[k] : k \in 1..Len(nd.aliases) }
\* CommandCollection lookup: by name first, then by alias
Lookup(tree, p, tok) ==
  LET byName == { n \in NamedKids(tree, p) : tree[n].name = tok }
      byAlias == { n \in NamedKids(tree, p) : \E k \in 1..Len(tree[n].aliases) : tree[n].aliases[k] = tok }
  IN IF byName # {} THEN CHOOSE n \in byName : TRUE
     ELSE IF byAlias # {} THEN CHOOSE n \in byAlias : \A m \in byAlias : n >= m      \* a later alias registration overrides
     ELSE 0
Min(S) == CHOOSE x \in S : \A y \in S : x <= y

\* ------------------------------------------------------------------ the line
RECURSIVE Lead(_)              \* leading tokens: up to the first empty token, option token or "--"
Lead(line) == IF line = <<>> \/ Head(line) = <<>> \/ IsDash(Head(line)) THEN <<>> ELSE <<Head(line)>> \o Lead(Tail(line))
RECURSIVE BeforeSep(_)
BeforeSep(line) == IF line = <<>> \/ Head(line) = DD THEN <<>> ELSE <<Head(line)>> \o BeforeSep(Tail(line))
AfterSep(line) == SubSeq(line, Len(BeforeSep(line)) + 2, Len(line))
\* positional tokens as the args parser sees them
Positionals(line) == SelectSeq(BeforeSep(line), LAMBDA t : t = <<>> \/ ~IsDash(t) \/ t = <<"-">>) \o AfterSep(line)

\* ------------------------------------------------------------------ P-layer
RECURSIVE PathFrom(_, _, _)    \* ids of the commands named by the longest prefix of toks, starting below p
PathFrom(tree, p, toks) ==
  IF toks = <<>> THEN <<>>
  ELSE LET n == Lookup(tree, p, Head(toks)) IN
       IF n = 0 THEN <<>> ELSE <<n>> \o PathFrom(tree, n, Tail(toks))
Path(tree, line) == PathFrom(tree, 0, Lead(line))
Target(tree, line) == IF Path(tree, line) = <<>> THEN 0 ELSE Path(tree, line)[Len(Path(tree, line))]
\* candidates the statement allows: the target's default sub-commands if it has any, else the target itself
Allowed(tree, line) ==
  LET t == Target(tree, line) IN
  IF DefaultKids(tree, t) # {} THEN DefaultKids(tree, t) ELSE IF t = 0 THEN {} ELSE {t}
\* outcome = [kind: "sel"|"undefined"|"nodefault"|"parse", id, tok]; parsable: id -> BOOLEAN (does that command parse the line)
OutcomeOK(tree, line, parsable, o) ==
  LET t == Target(tree, line)
      al == Allowed(tree, line)
  IN IF t = 0 /\ Lead(line) # <<>>
     THEN o.kind = "undefined" /\ o.tok = Lead(line)[1]           \* a first token naming no command
     ELSE IF al = {} THEN o.kind = "nodefault"
     ELSE /\ o.kind \in {"sel", "parse"}
          /\ (o.kind = "sel" => o.id \in al /\ parsable[o.id])
          /\ (o.kind = "parse" => \E c \in al : ~parsable[c])
          /\ ((\A c \in al : parsable[c]) => o.kind = "sel")
Undef == [kind |-> "undefined", id |-> 0]

\* ------------------------------------------------------------------ A-layer: does a command parse the line (model rule)
RECURSIVE NamePath(_, _)       \* command names of the format of n: its named ancestors and itself
NamePath(tree, n) == IF n = 0 THEN <<>>
                     ELSE NamePath(tree, tree[n].parent) \o (IF tree[n].kind = "anon" THEN <<>> ELSE <<n>>)
RECURSIVE SkipNames(_, _, _, _)
SkipNames(tree, pos, np, k) ==
  IF k < Len(pos) /\ k < Len(np) /\ pos[k + 1] # <<>> /\ pos[k + 1] \in Names(tree[np[k + 1]]) THEN SkipNames(tree, pos, np, k + 1) ELSE k
Extra(tree, n, line) == Len(Positionals(line)) - SkipNames(tree, Positionals(line), NamePath(tree, n), 0)
ParsableRule(tree, n, line) == ~tree[n].strict \/ Extra(tree, n, line) = 0

\* ------------------------------------------------------------------ A-layer: the resolver
VARIABLES tree, line, phase, lead, cur, i, cand, outcome
vars == <<tree, line, phase, lead, cur, i, cand, outcome>>
Pending == [kind |-> "pending", id |-> 0, tok |-> <<>>]

Start(tr, ln) == /\ tree = tr /\ line = ln /\ phase = "leading" /\ lead = <<>> /\ cur = 0 /\ i = 1 /\ cand = 0
                 /\ outcome = Pending
Restart(tr, ln) == /\ tree' = tr /\ line' = ln /\ phase' = "leading" /\ lead' = <<>> /\ cur' = 0 /\ i' = 1 /\ cand' = 0
                   /\ outcome' = Pending

Leading == /\ phase = "leading" /\ lead' = Lead(line) /\ phase' = "descend"
           /\ UNCHANGED <<tree, line, cur, i, cand, outcome>>
Descend == /\ phase = "descend"
           /\ LET n == IF i <= Len(lead) THEN Lookup(tree, cur, lead[i]) ELSE 0 IN
              IF n # 0 THEN cur' = n /\ i' = i + 1 /\ UNCHANGED phase
              ELSE phase' = "pick" /\ UNCHANGED <<cur, i>>
           /\ UNCHANGED <<tree, line, lead, cand, outcome>>
\* process_default_commands: the first default that parses, else the first default
PickFrom(ds, parsable) == IF \E d \in ds : parsable[d] THEN Min({d \in ds : parsable[d]}) ELSE Min(ds)
Pick(parsable) ==
  /\ phase = "pick"
  /\ LET ds == DefaultKids(tree, cur) IN
     IF cur = 0 /\ lead # <<>> THEN outcome' = [kind |-> "undefined", id |-> 0, tok |-> lead[1]] /\ phase' = "done" /\ UNCHANGED cand
     ELSE IF ds # {} THEN cand' = PickFrom(ds, parsable) /\ phase' = "final" /\ UNCHANGED outcome
     ELSE IF cur = 0 THEN outcome' = [kind |-> "nodefault", id |-> 0, tok |-> <<>>] /\ phase' = "done" /\ UNCHANGED cand
     ELSE cand' = cur /\ phase' = "final" /\ UNCHANGED outcome
  /\ UNCHANGED <<tree, line, lead, cur, i>>
Final(parsable) ==
  /\ phase = "final"
  /\ outcome' = [kind |-> IF parsable[cand] THEN "sel" ELSE "parse", id |-> cand, tok |-> <<>>]
  /\ phase' = "done"
  /\ UNCHANGED <<tree, line, lead, cur, i, cand>>
RuleParsable == [n \in 1..Len(tree) |-> ParsableRule(tree, n, line)]
Step == Leading \/ Descend \/ Pick(RuleParsable) \/ Final(RuleParsable)
Done == phase = "done"

\* ------------------------------------------------------------------ A => P
SelectsAsStated == Done => OutcomeOK(tree, line, RuleParsable, outcome)
DescendFollowsPath == phase \in {"pick", "final", "done"} => cur = Target(tree, line)
\* metamorphic laws on the named path (P-level facts about Target, checked for every explored line)
ToName(tr, p, tok) == IF Lookup(tr, p, tok) = 0 THEN tok ELSE tr[Lookup(tr, p, tok)].name
RECURSIVE Canon(_, _, _)       \* the leading tokens with every alias on the path replaced by the command's name
Canon(tr, p, toks) == IF toks = <<>> THEN <<>>
                      ELSE IF Lookup(tr, p, Head(toks)) = 0 THEN toks
                      ELSE <<ToName(tr, p, Head(toks))>> \o Canon(tr, Lookup(tr, p, Head(toks)), Tail(toks))
CanonLine(tr, ln) == Canon(tr, 0, Lead(ln)) \o SubSeq(ln, Len(Lead(ln)) + 1, Len(ln))
AliasLaw == Done => Target(tree, CanonLine(tree, line)) = Target(tree, line)
OptionLaw == Done => \A opt \in {<<"-", "g">>, <<"-", "-", "g", "l", "o", "b">>, <<"-", "-", "o", "p", "t", "=", "v">>} :
               Target(tree, BeforeSep(line) \o <<opt>> \o (IF Len(BeforeSep(line)) < Len(line) THEN <<DD>> \o AfterSep(line) ELSE <<>>)) = Target(tree, line)
SeparatorLaw == Done => \A n \in 1..Len(tree) : Target(tree, BeforeSep(line) \o <<DD, tree[n].name>>) = Target(tree, BeforeSep(line))
HiddenIrrelevant == Done => Target([n \in 1..Len(tree) |-> [tree[n] EXCEPT !.hidden = FALSE]], line) = Target(tree, line)
=============================================================================
