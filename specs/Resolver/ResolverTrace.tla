--------------------------- MODULE ResolverTrace ---------------------------
(* Observed resolutions of the real ConsoleApplication.resolve_command checked against Resolver.
   event: [tree, line, obs [kind, id, tok], parsable (observed: does command n parse the line, per node id)]
   Whether a command parses a line is the parser's business (C01/C02): it enters as the observed input `parsable`;
   the model's own rule for it is compared as an A-clause.                                                   *)
EXTENDS Resolver, TraceKit

VARIABLES tid, l
tvars == <<vars, tid, l>>
T == Traces[tid]
Ev == T[l]
NoTree == <<>>

TInit == /\ tid \in 1..NTraces /\ l = 1
         /\ IF Len(Traces[tid]) >= 1 THEN Start(Traces[tid][1].tree, Traces[tid][1].line) ELSE Start(NoTree, <<>>)
TStep == /\ l <= Len(T) /\ ~Done
         /\ (Leading \/ Descend \/ Pick(Ev.parsable) \/ Final(Ev.parsable))
         /\ UNCHANGED <<tid, l>>
Clauses(e) ==
  /\ Check(tid, l, "P.selection", e.obs.kind, OutcomeOK(e.tree, e.line, e.parsable, e.obs))
  /\ Note(tid, l, "A.outcome", e.obs.kind = outcome.kind /\ (outcome.kind = "sel" => e.obs.id = outcome.id) /\ e.obs.tok = outcome.tok)
  \* C01/C02 in the small: a lenient command parses every line, a strict argument-less one exactly the lines without
  \* a positional beyond its own name path (names or aliases, leading, possibly omitted from the right)
  /\ Check(tid, l, "P.parsable", "", \A n \in 1..Len(e.tree) : Alive(e.tree, n) => e.parsable[n] = ParsableRule(e.tree, n, e.line))
TCompare == /\ l <= Len(T) /\ Done /\ Clauses(Ev)
            /\ l' = l + 1 /\ tid' = tid
            /\ IF l + 1 <= Len(T) THEN Restart(T[l + 1].tree, T[l + 1].line) ELSE UNCHANGED vars
TDone == /\ l = Len(T) + 1 /\ l' = l + 1 /\ tid' = tid /\ UNCHANGED vars /\ Accept(tid)
TNext == TStep \/ TCompare \/ TDone
TSpec == TInit /\ [][TNext]_tvars
=============================================================================
