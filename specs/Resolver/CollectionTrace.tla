-------------------------- MODULE CollectionTrace --------------------------
(* Recorded operation sequences on the real CommandCollection against Collection.  The collection is not the subject of
   a listed property by itself (C03 observes it through the resolver): deviations are reported as DRIFT (A-clauses).   *)
EXTENDS Collection, TraceKit
VARIABLES tid, l
tvars == <<vars, tid, l>>
T == Traces[tid]
Ev == T[l]
TInit == tid \in 1..NTraces /\ l = 1 /\ Init
Adv == l' = l + 1 /\ tid' = tid
TAdd == l <= Len(T) /\ Ev.op = "add" /\ Adv /\ Add(Ev.c)
TGet == /\ l <= Len(T) /\ Ev.op = "get" /\ Adv /\ Lookup(Ev.t)
        /\ Note(tid, l, "A.collection.lookup", Ev.r = Resolve(Ev.t) /\ Ev.has = (Resolve(Ev.t) # "none"))
TList == /\ l <= Len(T) /\ Ev.op = "list" /\ Adv /\ Listing
         /\ Note(tid, l, "A.collection.listing", Ev.order = last'.order /\ Ev.n = last'.n
                    /\ {Ev.names[i] : i \in 1..Len(Ev.names)} = last'.names
                    /\ {Ev.aliases[i] : i \in 1..Len(Ev.aliases)} = last'.aliases)
TDone == /\ l = Len(T) + 1 /\ l' = l + 1 /\ tid' = tid /\ UNCHANGED vars /\ Accept(tid)
TNext == TAdd \/ TGet \/ TList \/ TDone
TSpec == TInit /\ [][TNext]_tvars
TCmds == [c1 |-> [name |-> "a", aliases |-> <<"x">>], c2 |-> [name |-> "b", aliases |-> <<"x", "y">>],
          c3 |-> [name |-> "a", aliases |-> <<"y">>], c4 |-> [name |-> "c", aliases |-> <<>>],
           c5 |-> [name |-> "x", aliases |-> <<"b">>]]     \* named like an alias of c1 / c2, with an alias that is the name of c2
TTokens == {"a", "b", "c", "x", "y", "z"}
=============================================================================
