SPECIFICATION HSpec
CONSTANTS
  Cmds <- MCCmds
  Tokens <- MCTokens
  MaxAdds = 4
  Depth = 3
INVARIANT LookupCorrect
INVARIANT ListingCorrect
INVARIANT Emit
