SPECIFICATION Spec
CONSTANTS
  MaxPath = 2
  Family = "quick"
INVARIANT SelectsAsStated
INVARIANT DescendFollowsPath
INVARIANT AliasLaw
INVARIANT OptionLaw
INVARIANT SeparatorLaw
INVARIANT HiddenIrrelevant
INVARIANT Emit
