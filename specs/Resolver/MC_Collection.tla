---------------------------- MODULE MC_Collection ----------------------------
EXTENDS Collection, Json
CONSTANT Depth
VARIABLE hist
MCCmds == [c1 |-> [name |-> "a", aliases |-> <<"x">>], c2 |-> [name |-> "b", aliases |-> <<"x", "y">>],
           c3 |-> [name |-> "a", aliases |-> <<"y">>], c4 |-> [name |-> "c", aliases |-> <<>>],
           c5 |-> [name |-> "x", aliases |-> <<"b">>]]     \* named like an alias of c1 / c2, with an alias that is the name of c2
MCTokens == {"a", "b", "c", "x", "y", "z"}
HInit == Init /\ hist = <<>>
HNext == Len(hist) < Depth /\ Next /\ hist' = Append(hist, last')
HSpec == HInit /\ [][HNext]_<<vars, hist>>
Emit == Len(hist) = Depth => PrintT(ToJson(hist))
=============================================================================
