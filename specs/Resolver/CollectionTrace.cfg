SPECIFICATION TSpec
CONSTANTS
  Cmds <- TCmds
  Tokens <- TTokens
  MaxAdds = 99
