SPECIFICATION SimSpec
CONSTANTS
  MaxPath = 3
  Family = "full"
INVARIANT SelectsAsStated
INVARIANT DescendFollowsPath
INVARIANT AliasLaw
INVARIANT OptionLaw
INVARIANT SeparatorLaw
INVARIANT HiddenIrrelevant
INVARIANT Emit
