----------------------------- MODULE Collection -----------------------------
(* clikit.api.command.CommandCollection - the name / alias index the resolver looks commands up in (extends the
   specification behind C03: Resolver.Lookup assumes exactly these lookups).

   P-layer: entries (what was added, in order; a later command of the same name replaces the earlier one in place, a
            later alias registration wins) and every query answered from them.
   A-layer: the two insertion-ordered dictionaries _commands (name -> command) and _alias_index (alias -> name).       *)
EXTENDS Naturals, Sequences, FiniteSets, TLC

CONSTANTS Cmds,      \* [id -> [name, aliases]]   commands that may be added (ids distinguish commands of the same name)
          Tokens,    \* strings to look up
          MaxAdds

VARIABLES added,     \* P: sequence of command ids in the order they were added
          byName,    \* A: _commands as ordered map  [k |-> name, v |-> id]
          byAlias,   \* A: _alias_index as ordered map [k |-> alias, v |-> name]
          last
vars == <<added, byName, byAlias, last>>

Keys(m) == { m[i].k : i \in 1..Len(m) }
Idx(m, k) == CHOOSE i \in 1..Len(m) : m[i].k = k
Put(m, k, v) == IF k \in Keys(m) THEN [m EXCEPT ![Idx(m, k)].v = v] ELSE Append(m, [k |-> k, v |-> v])
Get(m, k) == m[Idx(m, k)].v
RECURSIVE PutAll(_, _, _)
PutAll(m, ks, v) == IF ks = <<>> THEN m ELSE PutAll(Put(m, Head(ks), v), Tail(ks), v)

\* ---- P: from the sequence of additions
LastWith(P(_)) == LET S == { i \in 1..Len(added) : P(added[i]) } IN IF S = {} THEN 0 ELSE CHOOSE i \in S : \A j \in S : j <= i
CurrentOf(n) == LET i == LastWith(LAMBDA c : Cmds[c].name = n) IN IF i = 0 THEN "none" ELSE added[i]   \* the command now registered as n
AliasOwner(a) == LET i == LastWith(LAMBDA c : \E k \in 1..Len(Cmds[c].aliases) : Cmds[c].aliases[k] = a)
                 IN IF i = 0 THEN "none" ELSE Cmds[added[i]].name
Resolve(t) == IF CurrentOf(t) # "none" THEN CurrentOf(t)
              ELSE IF AliasOwner(t) # "none" THEN CurrentOf(AliasOwner(t)) ELSE "none"
NameSet == { Cmds[added[i]].name : i \in 1..Len(added) }

Init == added = <<>> /\ byName = <<>> /\ byAlias = <<>> /\ last = [op |-> "init"]
Add(c) == /\ Len(added) < MaxAdds
          /\ added' = Append(added, c)
          /\ byName' = Put(byName, Cmds[c].name, c)
          /\ byAlias' = PutAll(byAlias, Cmds[c].aliases, Cmds[c].name)
          /\ last' = [op |-> "add", c |-> c]
Lookup(t) == /\ last' = [op |-> "get", t |-> t,
                        r |-> IF t \in Keys(byName) THEN Get(byName, t)
                              ELSE IF t \in Keys(byAlias) THEN Get(byName, Get(byAlias, t)) ELSE "none",
                        has |-> (t \in Keys(byName) \/ t \in Keys(byAlias))]
             /\ UNCHANGED <<added, byName, byAlias>>
Listing == /\ last' = [op |-> "list", order |-> [i \in 1..Len(byName) |-> byName[i].v], n |-> Len(byName),
                       names |-> Keys(byName), aliases |-> Keys(byAlias)]
           /\ UNCHANGED <<added, byName, byAlias>>
Next == (\E c \in DOMAIN Cmds : Add(c)) \/ (\E t \in Tokens : Lookup(t)) \/ Listing
Spec == Init /\ [][Next]_vars

LookupCorrect == last.op = "get" => (last.r = Resolve(last.t) /\ last.has = (Resolve(last.t) # "none"))
ListingCorrect == last.op = "list" => (last.names = NameSet /\ last.n = Cardinality(NameSet)
                                       /\ \A i \in 1..Len(last.order) : last.order[i] = CurrentOf(Cmds[last.order[i]].name))
=============================================================================
