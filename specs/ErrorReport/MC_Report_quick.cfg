SPECIFICATION Spec
CONSTANTS
  MaxN = 14
  MaxF = 4
  Kinds <- Both
INVARIANT SnippetP
INVARIANT FramesP
INVARIANT Emit
