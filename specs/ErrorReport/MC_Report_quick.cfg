SPECIFICATION Spec
CONSTANTS
  MaxN = 14
  MaxF = 4
  Kinds <- Both
  MaxRenders = 2
  MemoByFile = FALSE
INVARIANT SnippetP
INVARIANT FramesP
INVARIANT HistoryP
INVARIANT Emit
