SPECIFICATION TSpec
