SPECIFICATION Spec
CONSTANTS
  MaxGroups = 3
  Names <- AllNames
INVARIANT Verbatim
INVARIANT FoldAgrees
INVARIANT Ends
INVARIANT Emit
