----------------------------- MODULE MC_Report -----------------------------
(* Two input -> output machines over ErrorReport's A-layer (one initial state per input, one step):
   kind "snippet"  Highlighter.code_snippet: every source length n <= MaxN, every failing line (also one and two
                   lines behind the end of the source), both window sizes the code uses (2/2 in the debug listing,
                   4/4 below the message): rows numbered consecutively, exactly the failing line marked.
   kind "frames"   ExceptionTrace._render_trace: every stack of up to MaxF frames, each under the ignored path or
                   not, at every verbosity, with and without an ignore pattern: no ignored frame is listed unless
                   the verbosity is debug; the raising frame is never listed (it is shown below the message).
   The results are emitted and replayed on the real classes.                                                *)
EXTENDS ErrorReport, Json, TLC

CONSTANTS MaxN, MaxF, Kinds

VARIABLES inp, out, pc
mvars == <<inp, out, pc>>

Windows == {<<2, 2>>, <<4, 4>>}
Masks == UNION {[1..n -> BOOLEAN] : n \in 1..MaxF}
Both == {"snippet", "frames"}
OnlySnippet == {"snippet"}
OnlyFrames == {"frames"}

Init == /\ pc = "in" /\ out = <<>>
        /\ \/ /\ "snippet" \in Kinds
              /\ \E n \in 1..MaxN, w \in Windows : \E line \in 1..(n + 2) :
                   inp = [kind |-> "snippet", n |-> n, line |-> line, before |-> w[1], after |-> w[2]]
           \/ /\ "frames" \in Kinds
              /\ \E m \in Masks, verb \in 0..3, ig \in BOOLEAN :
                   inp = [kind |-> "frames", frames |-> [k \in 1..Len(m) |-> [ign |-> m[k]]], verb |-> verb, ignoring |-> ig]
Next == /\ pc = "in" /\ pc' = "done" /\ UNCHANGED inp
        /\ out' = IF inp.kind = "snippet" THEN SnippetRows(inp.n, inp.line, inp.before, inp.after)
                  ELSE Listed(inp.frames, inp.ignoring, inp.verb)
Spec == Init /\ [][Next]_mvars

Done == pc = "done"
AsSnippet == [line |-> inp.line, avail |-> inp.line <= inp.n, rows |-> out]
SnippetP == (Done /\ inp.kind = "snippet") =>
              /\ NumbersOK(AsSnippet) /\ MarkOK(AsSnippet)
              /\ Len(out) <= inp.before + inp.after + 1
              /\ \A k \in 1..Len(out) : out[k].num >= 1 /\ out[k].num <= inp.n
FramesP == (Done /\ inp.kind = "frames") =>
              /\ IgnoredOK([ignoring |-> inp.ignoring, verb |-> inp.verb], [listing |-> out])
              /\ DebugShowsIgnored([ignoring |-> inp.ignoring, verb |-> inp.verb, recursion |-> FALSE, frames |-> inp.frames],
                                   [listing |-> out])
              /\ \A k \in 1..Len(out) : out[k].ix < Len(inp.frames)            \* the raising frame is not listed
              /\ (inp.verb = 3 \/ ~inp.ignoring) => Len(out) = (IF inp.verb >= 1 THEN Len(inp.frames) - 1 ELSE 0)
Emit == Done => PrintT(ToJson([inp |-> inp, out |-> out]))
=============================================================================
