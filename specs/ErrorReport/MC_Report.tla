----------------------------- MODULE MC_Report -----------------------------
(* Two input -> output machines over ErrorReport's A-layer (one initial state per input, one step):
   kind "snippet"  Highlighter.code_snippet: every source length n <= MaxN, every failing line (also one and two
                   lines behind the end of the source), both window sizes the code uses (2/2 in the debug listing,
                   4/4 below the message): rows numbered consecutively, exactly the failing line marked.
   kind "frames"   ExceptionTrace._render_trace: every stack of up to MaxF frames, each under the ignored path or
                   not, at every verbosity, with and without an ignore pattern: no ignored frame is listed unless
                   the verbosity is debug; the raising frame is never listed (it is shown below the message).
   kind "history"  several renders of one exception in one process with different ignore patterns ("none", the app
                   directory, the lib directory) and verbosities: what a render lists depends on the frames, the pattern
                   and the verbosity of THIS render only (HistoryFree) and obeys IgnoredOK / DebugShowsIgnored for its own
                   pattern.  MemoByFile = TRUE models an implementation that remembers per file whether it is ignored
                   (the decision of the first render that asked): TLC must then find HistoryP violated.
   The results are emitted and replayed on the real classes.                                                *)
EXTENDS ErrorReport, Json, TLC

CONSTANTS MaxN, MaxF, Kinds, MaxRenders, MemoByFile

VARIABLES inp, out, pc
mvars == <<inp, out, pc>>

Windows == {<<2, 2>>, <<4, 4>>}
Masks == UNION {[1..n -> BOOLEAN] : n \in 1..MaxF}
Both == {"snippet", "frames", "history"}
OnlyHistory == {"history"}
Dirs == {"app", "lib"}
DirSeqs == UNION {[1..n -> Dirs] : n \in 2..3}
RenderChoices == {[pat |-> p, verb |-> v] : p \in {"none", "app", "lib"}, v \in {1, 3}}
RenderSeqs == UNION {[1..n -> RenderChoices] : n \in 2..MaxRenders}

\* one render: frames = Seq([dir]); cache = [dir -> "?" | "yes" | "no"] (used by the memoising variant only)
IgnNow(frames, pat) == [k \in 1..Len(frames) |-> [ign |-> frames[k].dir = pat]]
Asks(r) == r.pat # "none" /\ r.verb < 3                                  \* the filter looks at the files
Decide(cache, d, pat) == IF MemoByFile /\ cache[d] # "?" THEN cache[d] = "yes" ELSE d = pat
CacheAfter(cache, frames, r) ==
  IF ~Asks(r) THEN cache
  ELSE [d \in Dirs |-> IF cache[d] = "?" /\ \E k \in 1..Len(frames) : frames[k].dir = d
                       THEN (IF d = r.pat THEN "yes" ELSE "no") ELSE cache[d]]
RenderListing(cache, frames, r) ==
  LET now == IgnNow(frames, r.pat)
      \* the frames the filter lets through: decided per file (directory), possibly from the memo
      seen == [k \in 1..Len(frames) |-> [ign |-> IF Asks(r) THEN Decide(cache, frames[k].dir, r.pat) ELSE FALSE]]
      kept == Listed(seen, Asks(r), r.verb)
  IN [j \in 1..Len(kept) |-> [ix |-> kept[j].ix, ign |-> now[kept[j].ix].ign]]
RECURSIVE HistoryFrom(_, _, _, _)
HistoryFrom(cache, frames, renders, k) ==
  IF k > Len(renders) THEN <<>>
  ELSE <<RenderListing(cache, frames, renders[k])>> \o HistoryFrom(CacheAfter(cache, frames, renders[k]), frames, renders, k + 1)
NoCache == [d \in Dirs |-> "?"]
OnlySnippet == {"snippet"}
OnlyFrames == {"frames"}

Init == /\ pc = "in" /\ out = <<>>
        /\ \/ /\ "snippet" \in Kinds
              /\ \E n \in 1..MaxN, w \in Windows : \E line \in 1..(n + 2) :
                   inp = [kind |-> "snippet", n |-> n, line |-> line, before |-> w[1], after |-> w[2]]
           \/ /\ "frames" \in Kinds
              /\ \E m \in Masks, verb \in 0..3, ig \in BOOLEAN :
                   inp = [kind |-> "frames", frames |-> [k \in 1..Len(m) |-> [ign |-> m[k]]], verb |-> verb, ignoring |-> ig]
           \/ /\ "history" \in Kinds
              /\ \E ds \in DirSeqs, rs \in RenderSeqs :
                   inp = [kind |-> "history", frames |-> [k \in 1..Len(ds) |-> [dir |-> ds[k]]], renders |-> rs]
Next == /\ pc = "in" /\ pc' = "done" /\ UNCHANGED inp
        /\ out' = IF inp.kind = "snippet" THEN SnippetRows(inp.n, inp.line, inp.before, inp.after)
                  ELSE IF inp.kind = "frames" THEN Listed(inp.frames, inp.ignoring, inp.verb)
                  ELSE HistoryFrom(NoCache, inp.frames, inp.renders, 1)
Spec == Init /\ [][Next]_mvars

Done == pc = "done"
AsSnippet == [line |-> inp.line, avail |-> inp.line <= inp.n, rows |-> out]
SnippetP == (Done /\ inp.kind = "snippet") =>
              /\ NumbersOK(AsSnippet) /\ MarkOK(AsSnippet)
              /\ Len(out) <= inp.before + inp.after + 1
              /\ \A k \in 1..Len(out) : out[k].num >= 1 /\ out[k].num <= inp.n
FramesP == (Done /\ inp.kind = "frames") =>
              /\ IgnoredOK([ignoring |-> inp.ignoring, verb |-> inp.verb], [listing |-> out])
              /\ DebugShowsIgnored([ignoring |-> inp.ignoring, verb |-> inp.verb, recursion |-> FALSE, frames |-> inp.frames],
                                   [listing |-> out])
              /\ \A k \in 1..Len(out) : out[k].ix < Len(inp.frames)            \* the raising frame is not listed
              /\ (inp.verb = 3 \/ ~inp.ignoring) => Len(out) = (IF inp.verb >= 1 THEN Len(inp.frames) - 1 ELSE 0)
\* every render of a history: its own pattern decides, earlier renders do not matter
HistoryP == (Done /\ inp.kind = "history") =>
              \A i \in 1..Len(inp.renders) :
                LET r == inp.renders[i]
                    c == [ignoring |-> r.pat # "none", verb |-> r.verb, recursion |-> FALSE, frames |-> IgnNow(inp.frames, r.pat)]
                IN /\ IgnoredOK(c, [listing |-> out[i]])
                   /\ DebugShowsIgnored(c, [listing |-> out[i]])
                   /\ out[i] = HistoryFrom(NoCache, inp.frames, <<r>>, 1)[1]                       \* HistoryFree
Emit == Done => PrintT(ToJson([inp |-> inp, out |-> out]))
=============================================================================
