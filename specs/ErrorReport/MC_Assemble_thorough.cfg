SPECIFICATION Spec
CONSTANTS
  MaxGroups = 4
  Names <- AllNames
INVARIANT Verbatim
INVARIANT FoldAgrees
INVARIANT Ends
INVARIANT Emit
