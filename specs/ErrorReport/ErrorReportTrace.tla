-------------------------- MODULE ErrorReportTrace --------------------------
(* Observations of the real ExceptionTrace / Highlighter checked against ErrorReport and Assemble.
   A trace is one event, or - a history - several "render" events: renders of one exception in one process, in order,
   by fresh ExceptionTrace objects or by one, each with its own ignore pattern, verbosity and UTF-8 support (its
   c.ignoring / c.frames[k].ign / c.utf8 are those of THAT render); every
   event is decided on its own, which is exactly the claim that earlier renders do not matter.  Events:
     op = "render"     c = the case  [simple, verb, ignoring, name, msg, frames : Seq([ign]), recursion, origin]
                       o = the observation [esc, lines, head, listing, snippets]   (see ErrorReport; a snippet row also
                           carries feat = a tag for the kind of source row, used to tell findings apart)
     op = "highlight"  src, toks = a small source and Python's token stream for it (classified as Highlighter does),
                       shown = the lines the highlighter produced, as displayed on a buffered I/O,
                       segs  = the same lines as segments [st, t],  esc
     op = "snippet"    n, line, before, after, rows = Highlighter.code_snippet on a source of n rows, esc
   P-clauses come from the statement; A-clauses (Note) compare with the algorithm layer.                        *)
EXTENDS ErrorReport, TraceKit
A == INSTANCE Assemble

VARIABLES tid, l
tvars == <<tid, l>>
T == Traces[tid]
E == T[l]

TInit == tid \in 1..NTraces /\ l = 1
Adv == l' = l + 1 /\ tid' = tid
Is(op) == l <= Len(T) /\ E.op = op

\* all snippets of a rendering satisfy Q
AllSn(Q(_)) == \A k \in 1..Len(E.o.snippets) : Q(E.o.snippets[k])
FirstBad == LET S == {k \in 1..Len(E.o.snippets) : ~VerbatimOK(E.o.snippets[k])} IN
            IF S = {} THEN "" ELSE LET sn == E.o.snippets[Min(S)] IN sn.rows[Min(BadVerbatim(sn))].feat
Mode == IF E.c.simple THEN "simple" ELSE "full"

TRender ==
  /\ Is("render") /\ Adv
  /\ Check(tid, l, "P.renders", E.o.esc \o "/" \o E.c.origin \o "/" \o Mode, Renders(E.o))
  /\ Check(tid, l, "P.simple", "", SimpleOK(E.c, E.o))
  /\ Check(tid, l, "P.name", "", NameShown(E.c, E.o))
  /\ Check(tid, l, "P.message", Mode, MessageShown(E.c, E.o))
  /\ Check(tid, l, "P.snippet.numbers", "", AllSn(NumbersOK))
  /\ Check(tid, l, "P.snippet.mark", "", AllSn(MarkOK))
  /\ Check(tid, l, "P.snippet.glyphs", "", AllSn(LAMBDA sn : AsciiGlyphsOK(E.c, sn)))
  /\ Check(tid, l, "P.snippet.verbatim", FirstBad, AllSn(VerbatimOK))
  /\ Check(tid, l, "P.frames.ignored", "", IgnoredOK(E.c, E.o))
  /\ Check(tid, l, "P.frames.debug", "", E.c.simple \/ DebugShowsIgnored(E.c, E.o))
  /\ Note(tid, l, "A.listing", (~E.c.simple /\ ~E.c.recursion) =>
            [k \in 1..Len(E.o.listing) |-> E.o.listing[k].ix]
              = [k \in 1..Len(Listed(E.c.frames, E.c.ignoring, E.c.verb)) |-> Listed(E.c.frames, E.c.ignoring, E.c.verb)[k].ix])
  /\ Note(tid, l, "A.window", (~E.c.simple /\ E.o.snippets # <<>>) =>
            LET sn == E.o.snippets[Len(E.o.snippets)] IN
            (sn.avail /\ sn.rows # <<>>) => sn.rows[1].num = WindowFirst(sn.line, 4))

ShownOf(segs) == [k \in 1..Len(segs) |-> A!Shown(segs[k])]
THighlight ==
  /\ Is("highlight") /\ Adv
  /\ Check(tid, l, "P.renders", E.esc \o "/highlighter", E.esc = "")
  /\ Check(tid, l, "P.snippet.verbatim", E.feat, A!VerbatimRows(E.src, E.toks, E.shown))
  /\ Note(tid, l, "A.assemble", A!Assemble(E.src, E.toks) = E.segs)

TSnippet ==
  /\ Is("snippet") /\ Adv
  /\ Check(tid, l, "P.renders", E.esc \o "/snippet", E.esc = "")
  /\ LET sn == [line |-> E.line, avail |-> E.line <= E.n, rows |-> E.rows] IN
     /\ Check(tid, l, "P.snippet.numbers", "", NumbersOK(sn))
     /\ Check(tid, l, "P.snippet.mark", "", MarkOK(sn))
  /\ Note(tid, l, "A.window", E.rows = SnippetRows(E.n, E.line, E.before, E.after))

TDone == /\ l = Len(T) + 1 /\ l' = l + 1 /\ tid' = tid /\ Accept(tid)
TNext == TRender \/ THighlight \/ TSnippet \/ TDone
TSpec == TInit /\ [][TNext]_tvars
=============================================================================
