SPECIFICATION Spec
CONSTANTS
  MaxN = 30
  MaxF = 6
  Kinds <- Both
  MaxRenders = 3
  MemoByFile = FALSE
INVARIANT SnippetP
INVARIANT FramesP
INVARIANT HistoryP
INVARIANT Emit
