SPECIFICATION Spec
CONSTANTS
  MaxN = 30
  MaxF = 6
  Kinds <- Both
INVARIANT SnippetP
INVARIANT FramesP
INVARIANT Emit
