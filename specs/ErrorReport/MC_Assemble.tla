---------------------------- MODULE MC_Assemble ----------------------------
(* Model-checking harness for Assemble: programs are composed from row groups whose token streams are those of
   Python's tokenizer (the harness checks that: H.tokens); TLC runs the highlighter's line assembly token by token
   and checks that every row not touched by a multi-row token is shown verbatim.  Every program with its assembled
   lines is emitted and replayed on the real Highlighter.
   Groups: assign, comment (with markup-like text), blank, cont (backslash continuation, 2 rows), mstr (a string
   over 3 rows followed by a comment), cmp (a<b>c: comparison operators that look like a tag), paren (a bracketed
   expression over 2 rows), block (if + indented body: INDENT / DEDENT tokens), bscomment (a comment that ends with
   a backslash), tagstr (a string holding an unbalanced closing tag), bsonly (a statement continued over a line that
   holds nothing but the continuation backslash: a row without any token), lsep (a string and a comment holding
   characters that str.splitlines() takes for line ends but Python's tokenizer does not: U+2028, form feed, U+0085 - as
   the stand-in cells "u2028", "u000c", "u0085").                                                            *)
EXTENDS Assemble, Json, TLC

CONSTANTS MaxGroups, Names

VARIABLES prog, src, toks, st, i
mvars == <<prog, src, toks, st, i>>

Tk(ty, s, r1, c1, r2, c2) == [ty |-> ty, s |-> s, r1 |-> r1, c1 |-> c1, r2 |-> r2, c2 |-> c2]
GroupNames == {"assign", "comment", "blank", "cont", "mstr", "cmp", "paren", "block", "bscomment", "tagstr", "bsonly", "lsep"}
GroupRows(g) ==
  CASE g = "assign" -> <<<<"x", " ", "=", " ", "1">>>>
    [] g = "comment" -> <<<<"#", " ", "c", " ", "<", "b", ">">>>>
    [] g = "blank" -> <<<<>>>>
    [] g = "cont" -> <<<<"y", " ", "=", " ", "x", " ", "\\">>, <<" ", " ", "+", " ", "2">>>>
    [] g = "mstr" -> <<<<"s", " ", "=", " ", "\"", "\"", "\"", "a">>, <<"b">>, <<"c", "\"", "\"", "\"", " ", "#", " ", "e">>>>
    [] g = "cmp" -> <<<<"f", "(", "a", "<", "b", ">", "c", ")">>>>
    [] g = "paren" -> <<<<"t", " ", "=", " ", "(", "1", ",">>, <<" ", " ", " ", " ", " ", "2", ")">>>>
    [] g = "block" -> <<<<"i", "f", " ", "x", ":">>, <<" ", " ", " ", " ", "p", "a", "s", "s">>>>
    [] g = "bscomment" -> <<<<"z", " ", "=", " ", "'", "q", "'", " ", " ", "#", " ", "\\">>>>
    [] g = "tagstr" -> <<<<"m", " ", "=", " ", "'", "<", "/", "i", "n", "f", "o", ">", "'">>>>
    [] g = "bsonly" -> <<<<"v", " ", "=", " ", "x", " ", "+", " ", "\\">>, <<"\\">>, <<" ", " ", " ", " ", "3">>>>
    [] g = "lsep" -> <<<<"w", " ", "=", " ", "'", "a", "u2028", "b", "'", " ", " ", "#", " ", "c", "u000c", "d", "u0085", "e">>>>
GroupToks(g) ==
  CASE g = "assign" -> <<Tk("default", <<<<"x">>>>, 1, 0, 1, 1),
            Tk("op", <<<<"=">>>>, 1, 2, 1, 3),
            Tk("num", <<<<"1">>>>, 1, 4, 1, 5),
            Tk("newline", <<<<"NL">>>>, 1, 5, 1, 6)>>
    [] g = "comment" -> <<Tk("comment", <<<<"#", " ", "c", " ", "<", "b", ">">>>>, 1, 0, 1, 7),
            Tk("default", <<<<"NL">>>>, 1, 7, 1, 8)>>
    [] g = "blank" -> <<Tk("default", <<<<"NL">>>>, 1, 0, 1, 1)>>
    [] g = "cont" -> <<Tk("default", <<<<"y">>>>, 1, 0, 1, 1),
            Tk("op", <<<<"=">>>>, 1, 2, 1, 3),
            Tk("default", <<<<"x">>>>, 1, 4, 1, 5),
            Tk("op", <<<<"+">>>>, 2, 2, 2, 3),
            Tk("num", <<<<"2">>>>, 2, 4, 2, 5),
            Tk("newline", <<<<"NL">>>>, 2, 5, 2, 6)>>
    [] g = "mstr" -> <<Tk("default", <<<<"s">>>>, 1, 0, 1, 1),
            Tk("op", <<<<"=">>>>, 1, 2, 1, 3),
            Tk("str", <<<<"\"", "\"", "\"", "a">>, <<"b">>, <<"c", "\"", "\"", "\"">>>>, 1, 4, 3, 4),
            Tk("comment", <<<<"#", " ", "e">>>>, 3, 5, 3, 8),
            Tk("newline", <<<<"NL">>>>, 3, 8, 3, 9)>>
    [] g = "cmp" -> <<Tk("default", <<<<"f">>>>, 1, 0, 1, 1),
            Tk("op", <<<<"(">>>>, 1, 1, 1, 2),
            Tk("default", <<<<"a">>>>, 1, 2, 1, 3),
            Tk("op", <<<<"<">>>>, 1, 3, 1, 4),
            Tk("default", <<<<"b">>>>, 1, 4, 1, 5),
            Tk("op", <<<<">">>>>, 1, 5, 1, 6),
            Tk("default", <<<<"c">>>>, 1, 6, 1, 7),
            Tk("op", <<<<")">>>>, 1, 7, 1, 8),
            Tk("newline", <<<<"NL">>>>, 1, 8, 1, 9)>>
    [] g = "paren" -> <<Tk("default", <<<<"t">>>>, 1, 0, 1, 1),
            Tk("op", <<<<"=">>>>, 1, 2, 1, 3),
            Tk("op", <<<<"(">>>>, 1, 4, 1, 5),
            Tk("num", <<<<"1">>>>, 1, 5, 1, 6),
            Tk("op", <<<<",">>>>, 1, 6, 1, 7),
            Tk("default", <<<<"NL">>>>, 1, 7, 1, 8),
            Tk("num", <<<<"2">>>>, 2, 5, 2, 6),
            Tk("op", <<<<")">>>>, 2, 6, 2, 7),
            Tk("newline", <<<<"NL">>>>, 2, 7, 2, 8)>>
    [] g = "block" -> <<Tk("kw", <<<<"i", "f">>>>, 1, 0, 1, 2),
            Tk("default", <<<<"x">>>>, 1, 3, 1, 4),
            Tk("op", <<<<":">>>>, 1, 4, 1, 5),
            Tk("newline", <<<<"NL">>>>, 1, 5, 1, 6),
            Tk("default", <<<<" ", " ", " ", " ">>>>, 2, 0, 2, 4),
            Tk("kw", <<<<"p", "a", "s", "s">>>>, 2, 4, 2, 8),
            Tk("newline", <<<<"NL">>>>, 2, 8, 2, 9)>>
    [] g = "bscomment" -> <<Tk("default", <<<<"z">>>>, 1, 0, 1, 1),
            Tk("op", <<<<"=">>>>, 1, 2, 1, 3),
            Tk("str", <<<<"'", "q", "'">>>>, 1, 4, 1, 7),
            Tk("comment", <<<<"#", " ", "\\">>>>, 1, 9, 1, 12),
            Tk("newline", <<<<"NL">>>>, 1, 12, 1, 13)>>
    [] g = "tagstr" -> <<Tk("default", <<<<"m">>>>, 1, 0, 1, 1),
            Tk("op", <<<<"=">>>>, 1, 2, 1, 3),
            Tk("str", <<<<"'", "<", "/", "i", "n", "f", "o", ">", "'">>>>, 1, 4, 1, 13),
            Tk("newline", <<<<"NL">>>>, 1, 13, 1, 14)>>
    [] g = "bsonly" -> <<Tk("default", <<<<"v">>>>, 1, 0, 1, 1),
            Tk("op", <<<<"=">>>>, 1, 2, 1, 3),
            Tk("default", <<<<"x">>>>, 1, 4, 1, 5),
            Tk("op", <<<<"+">>>>, 1, 6, 1, 7),
            Tk("num", <<<<"3">>>>, 3, 4, 3, 5),
            Tk("newline", <<<<"NL">>>>, 3, 5, 3, 6)>>
    [] g = "lsep" -> <<Tk("default", <<<<"w">>>>, 1, 0, 1, 1),
            Tk("op", <<<<"=">>>>, 1, 2, 1, 3),
            Tk("str", <<<<"'", "a", "u2028", "b", "'">>>>, 1, 4, 1, 9),
            Tk("comment", <<<<"#", " ", "c", "u000c", "d", "u0085", "e">>>>, 1, 11, 1, 18),
            Tk("newline", <<<<"NL">>>>, 1, 18, 1, 19)>>

AllNames == GroupNames
FewNames == {"assign", "comment", "cont", "mstr", "cmp", "block", "bscomment"}
Logical(g) == g \notin {"comment", "blank"}          \* starts a logical line: a pending DEDENT comes before it
Shift(tk, d) == [tk EXCEPT !.r1 = @ + d, !.r2 = @ + d]
Dedent(r) == Tk("default", << <<>> >>, r, 0, r, 0)

\* compose the rows and the token stream of a program (sequence of group names)
RECURSIVE Compose(_, _, _, _, _)
Compose(p, k, rows, tks, pending) ==
  IF k > Len(p) THEN
    [src |-> rows,
     toks |-> tks \o (IF pending THEN <<Dedent(Len(rows) + 1)>> ELSE <<>>) \o <<Tk("end", << <<>> >>, Len(rows) + 1, 0, Len(rows) + 1, 0)>>]
  ELSE LET g == p[k]
           d == Len(rows)
           flush == pending /\ Logical(g)
       IN Compose(p, k + 1, rows \o GroupRows(g),
                  tks \o (IF flush THEN <<Dedent(d + 1)>> ELSE <<>>)
                      \o [j \in 1..Len(GroupToks(g)) |-> Shift(GroupToks(g)[j], d)],
                  IF g = "block" THEN TRUE ELSE IF flush THEN FALSE ELSE pending)

Programs == UNION {[1..n -> Names] : n \in 1..MaxGroups}

Init == /\ prog \in Programs
        /\ LET c == Compose(prog, 1, <<>>, <<>>, FALSE) IN src = c.src /\ toks = c.toks
        /\ st = AInit /\ i = 1
Next == /\ i <= Len(toks)
        /\ st' = AStep(src, st, toks[i]) /\ i' = i + 1
        /\ UNCHANGED <<prog, src, toks>>
Spec == Init /\ [][Next]_mvars

Done == i > Len(toks)
ShownLines == [k \in 1..Len(st.lines) |-> Shown(st.lines[k])]
\* P: rows made of single-row tokens are shown verbatim
Verbatim == Done => VerbatimRows(src, toks, ShownLines)
\* the stepwise machine and the fold are the same function
FoldAgrees == Done => st.lines = Assemble(src, toks)
Ends == Done => st.done
Emit == Done => PrintT(ToJson([prog |-> prog, src |-> src, toks |-> toks, lines |-> st.lines]))
=============================================================================
