SPECIFICATION Spec
CONSTANTS
  MaxN = 1
  MaxF = 1
  Kinds <- OnlyHistory
  MaxRenders = 2
  MemoByFile = TRUE
INVARIANT HistoryP
