---------------------------- MODULE ErrorReport ----------------------------
(* clikit.ui.components.exception_trace  (property C20): what a rendered error report must show (P-layer) and how
   ExceptionTrace / Highlighter decide what to show (A-layer: rendering mode, frame filter, snippet window).
   The line assembly of the highlighter (Highlighter.split_to_lines) is module Assemble.

   Text is a sequence of cells.  A cell is a 1-character string or, for characters outside printable ASCII, a
   stand-in symbol made by the harness ("u00e9"); cells are only compared for equality.
   No constants, no variables: the operators are used by the MC_* machines and by ErrorReportTrace.

   P-layer (statement):
     Renders        rendering does not raise
     SimpleOK       simple mode: the output is the message, line by line, style markup aside - nothing else
     NameShown      full mode: some line is the exception's class name
     MessageShown   full mode: the lines of the message appear as consecutive lines, style markup aside
     NumbersOK      the rows of a snippet are numbered consecutively
     MarkOK         when the source is available exactly one row is marked: the failing line
     VerbatimOK     a row whose source line consists of single-line tokens shows that line (trailing blanks aside)
     AsciiGlyphsOK  on an I/O that does not support UTF-8 the snippet's marker and delimiter are the ASCII ones
     IgnoredOK      unless the verbosity is debug no listed frame lies under the ignored path
     DebugShowsIgnored  at debug verbosity the frames under the ignored path are listed too
   "Style markup aside" (MatchAside): the shown text is the message from which some tag-shaped pieces "<...>" (no
   blank, "<" or ">" inside) and some backslashes standing before "<" have been left out - whichever subset.   *)
EXTENDS Integers, Sequences

Min(S) == CHOOSE x \in S : \A y \in S : x <= y
Max(S) == CHOOSE x \in S : \A y \in S : x >= y
Max2(a, b) == IF a >= b THEN a ELSE b
Min2(a, b) == IF a <= b THEN a ELSE b

Blank == " "
RTrimC(s) == LET S == {k \in 1..Len(s) : s[k] \notin {Blank, "\t"}} IN IF S = {} THEN <<>> ELSE SubSeq(s, 1, Max(S))
LTrimC(s) == LET S == {k \in 1..Len(s) : s[k] # Blank} IN IF S = {} THEN <<>> ELSE SubSeq(s, Min(S), Len(s))
TrimC(s) == LTrimC(RTrimC(s))

\* ------------------------------------------------------------------ P: style markup aside
\* length of the tag-shaped piece starting at s[j] (0: none)
\* the style names of clikit's default style set and of pastel; a tag is a STYLE tag when its name is one of them or a
\* style definition (fg=..., bg=..., options=...), with or without the closing slash; "</>" closes whatever is open
StyleNames == {<<"b">>, <<"u">>, <<"c", "1">>, <<"c", "2">>, <<"i", "n", "f", "o">>, <<"e", "r", "r", "o", "r">>,
               <<"c", "o", "m", "m", "e", "n", "t">>, <<"q", "u", "e", "s", "t", "i", "o", "n">>}
IsStyleName(n) == n = <<>> \/ n \in StyleNames \/ \E k \in 1..Len(n) : n[k] = "="
\* length of the STYLE tag starting at s[j] (0: none).  Angle-bracket text that is no style - List<int>, <module>,
\* <nonexistent> - is text and must be shown
TagLen(s, j) ==
  IF s[j] # "<" THEN 0
  ELSE LET ends == {k \in (j + 1)..Len(s) : s[k] = ">" /\ \A i \in (j + 1)..(k - 1) : s[i] \notin {"<", ">", Blank}}
       IN IF ends = {} THEN 0
          ELSE LET e == Min(ends)
                   inner == SubSeq(s, j + 1, e - 1)
                   name == IF inner # <<>> /\ inner[1] = "/" THEN SubSeq(inner, 2, Len(inner)) ELSE inner
               IN IF (inner # <<>> /\ IsStyleName(name)) THEN e - j + 1 ELSE 0

\* cells that can only be matched literally; a run of them is consumed in one go (keeps the recursion shallow)
PlainAt(msg, j) == msg[j] \notin {"<", "\\", Blank}
RunLen(out, msg, i, j) ==
  Max({n \in 0..Min2(Len(out) - i + 1, Len(msg) - j + 1) :
         \A k \in 0..(n - 1) : PlainAt(msg, j + k) /\ out[i + k] = msg[j + k]})
RECURSIVE MatchFrom(_, _, _, _)
MatchFrom(out, msg, i, j) ==
  IF j > Len(msg) THEN \A k \in i..Len(out) : out[k] = Blank
  ELSE LET n == RunLen(out, msg, i, j) IN
       IF n > 0 THEN MatchFrom(out, msg, i + n, j + n)
       ELSE \/ (i <= Len(out) /\ out[i] = msg[j] /\ MatchFrom(out, msg, i + 1, j + 1))
            \/ ((i > Len(out) \/ i = 1) /\ msg[j] = Blank /\ MatchFrom(out, msg, i, j + 1))   \* blanks left at either end by a dropped tag
            \/ (TagLen(msg, j) > 0 /\ MatchFrom(out, msg, i, j + TagLen(msg, j)))
            \/ (msg[j] = "\\" /\ j < Len(msg) /\ msg[j + 1] = "<" /\ MatchFrom(out, msg, i, j + 1))
MatchAside(out, msg) == MatchFrom(out, msg, 1, 1)
\* one output line shows one message line (indentation and trailing blanks aside)
LineShows(outl, msgl) == MatchAside(TrimC(outl), TrimC(msgl))

\* ------------------------------------------------------------------ P-clauses over an observation
\* case c = [simple, verb (0 normal, 1 verbose, 2 very verbose, 3 debug), utf8, ignoring, name, msg : Seq(line)]
\* obs  o = [esc, lines : every output line, head : the lines before the snippet location line and after the stack
\*           trace, listing : Seq([ign, file, lineno, fn]), snippets : Seq([line, avail, rows])]
\*           row = [num, marked, text, known, src, single]
Renders(o) == o.esc = ""
SimpleOK(c, o) == c.simple => /\ Len(o.lines) = Len(c.msg)
                              /\ \A k \in 1..Len(c.msg) : LineShows(o.lines[k], c.msg[k])
NameShown(c, o) == ~c.simple => \E k \in 1..Len(o.head) : TrimC(o.head[k]) = c.name
MessageShown(c, o) ==
  ~c.simple => \E k \in 0..(Len(o.head) - Len(c.msg)) : \A j \in 1..Len(c.msg) : LineShows(o.head[k + j], c.msg[j])

NumbersOK(sn) == \A k \in 2..Len(sn.rows) : sn.rows[k].num = sn.rows[k - 1].num + 1
MarkOK(sn) == sn.avail => LET M == {k \in 1..Len(sn.rows) : sn.rows[k].marked}
                          IN \E k \in M : M = {k} /\ sn.rows[k].num = sn.line
VerbatimOK(sn) == \A k \in 1..Len(sn.rows) :
                    LET r == sn.rows[k] IN (r.known /\ r.single) => RTrimC(r.text) = RTrimC(r.src)
\* an I/O without UTF-8 support gets ASCII symbols: rows carry mark ("" or the marker glyph) and delim (the delimiter glyph)
AsciiGlyphsOK(c, sn) == ~c.utf8 => \A k \in 1..Len(sn.rows) : sn.rows[k].mark \in {"", ">"} /\ sn.rows[k].delim = "|"
\* which row is the first / which kind of row breaks the clause (discriminates findings)
BadVerbatim(sn) == {k \in 1..Len(sn.rows) : LET r == sn.rows[k] IN r.known /\ r.single /\ RTrimC(r.text) # RTrimC(r.src)}
IgnoredOK(c, o) == (c.ignoring /\ c.verb < 3) => \A k \in 1..Len(o.listing) : ~o.listing[k].ign
\* "unless the verbosity is debug": at debug verbosity the frames under the ignored path are listed like the others
\* (all frames but the raising one, which is shown below the message).  listing[j].ix = index of the frame it shows.
\* Not claimed for stacks with repeated frames (they are folded into "Previous N frames repeated").
DebugShowsIgnored(c, o) ==
  (c.ignoring /\ c.verb = 3 /\ ~c.recursion) =>
     \A k \in 1..(Len(c.frames) - 1) : c.frames[k].ign => \E j \in 1..Len(o.listing) : o.listing[j].ix = k

\* ------------------------------------------------------------------ A-layer: snippet window, frame filter, sections
\* Highlighter.code_snippet: numbers of the rows shown for a source of n highlighted lines
WindowFirst(line, before) == Max2(line - before - 1, 0) + 1
WindowCount(n, line, before, after) == Max2(0, Min2(before + after + 1, n - WindowFirst(line, before) + 1))
SnippetRows(n, line, before, after) ==
  [k \in 1..WindowCount(n, line, before, after) |->
     [num |-> WindowFirst(line, before) + k - 1, marked |-> WindowFirst(line, before) + k - 1 = line]]

\* ExceptionTrace._render_trace: frames = Seq([ign]); which of them are listed (no repeated frames: compact() keeps them)
SelectSeq2(s, T(_)) == SelectSeq(s, T)
Kept(frames, ignoring, verb) == SelectSeq([k \in 1..Len(frames) |-> [ix |-> k, ign |-> frames[k].ign]],
                                          LAMBDA f : ~(ignoring /\ f.ign /\ verb < 3))
\* the listing appears when the verbosity is at least verbose and (kept - 1) is not zero; it shows all kept frames but
\* the last one
HasListing(frames, ignoring, verb) == verb >= 1 /\ Len(Kept(frames, ignoring, verb)) # 1
Listed(frames, ignoring, verb) ==
  LET k == Kept(frames, ignoring, verb) IN
  IF HasListing(frames, ignoring, verb) /\ Len(k) > 1 THEN SubSeq(k, 1, Len(k) - 1) ELSE <<>>
=============================================================================
