------------------------------ MODULE Assemble ------------------------------
(* A-layer of Highlighter.split_to_lines (the repaired algorithm): a fold over the token stream of a source.

   src   : Seq(row)            the physical lines of the source (cells, without the line ends)
   token : [ty, s, r1, c1, r2, c2]
           ty  "kw" | "builtin" | "str" | "num" | "comment" | "op" | "newline" | "default" | "end"
               (classification of Highlighter: keyword / builtin by the token's text, then by tokenize type; "newline"
               = NEWLINE, skipped; NL, INDENT, DEDENT, NAME ... = "default"; "end" = ENDMARKER)
           s   the token's text as a sequence of lines (cells); the line end of an NL token is the cell "NL"
           (r1, c1) .. (r2, c2)  start / end, rows 1-based, columns 0-based
   state : [lines, line, buf, cur, crow, ccol, done]
           lines, line : sequences of segments [st, t]  (st = a token type, or "raw" for text written without style)
   P (statement): a row that no multi-row token touches is shown verbatim.                                     *)
EXTENDS Integers, Sequences
LOCAL INSTANCE SequencesExt

NL == "NL"
ABlank == " "
ARTrimNL(s) == LET S == {k \in 1..Len(s) : s[k] # NL} IN IF S = {} THEN <<>> ELSE
               SubSeq(s, 1, CHOOSE k \in S : \A j \in S : j <= k)
ARTrimWS(s) == LET S == {k \in 1..Len(s) : s[k] \notin {ABlank, NL, "\t"}} IN IF S = {} THEN <<>> ELSE
               SubSeq(s, 1, CHOOSE k \in S : \A j \in S : j <= k)

\* _segment() / styled(): nothing for no text; backslashes at the end of the text are written behind the closing tag
\* (they would escape it), i.e. without style
NoTailBS(t) == LET S == {k \in 1..Len(t) : t[k] # "\\"} IN IF S = {} THEN <<>> ELSE
               SubSeq(t, 1, CHOOSE k \in S : \A j \in S : j <= k)
Seg(st, t) == IF t = <<>> \/ st = "raw" THEN (IF t = <<>> THEN <<>> ELSE << [st |-> "raw", t |-> t] >>)
              ELSE LET body == NoTailBS(t) IN
                   (IF body = <<>> THEN <<>> ELSE << [st |-> st, t |-> body] >>)
                   \o (IF Len(body) < Len(t) THEN << [st |-> "raw", t |-> SubSeq(t, Len(body) + 1, Len(t))] >> ELSE <<>>)
Row(src, r) == IF r >= 1 /\ r <= Len(src) THEN src[r] ELSE <<>>
Cut(row, a, b) == SubSeq(row, a + 1, IF b <= Len(row) THEN b ELSE Len(row))    \* row[a:b], 0-based, clipped

AInit == [lines |-> <<>>, line |-> <<>>, buf |-> <<>>, cur |-> "none", crow |-> 1, ccol |-> 0, done |-> FALSE]

\* the part of Step that runs when the token starts on a later row than the one being assembled
NewRow(src, st, tok) ==
  IF tok.r1 > st.crow THEN
    \* the row being assembled is completed; rows without any token of their own (a lone continuation backslash) follow
    \* it, as they are
    [st EXCEPT !.lines = st.lines
                         \o << st.line \o Seg(st.cur, ARTrimNL(st.buf))
                                       \o Seg("raw", ARTrimWS(Cut(Row(src, st.crow), st.ccol, Len(Row(src, st.crow))))) >>
                         \o [k \in 1..(tok.r1 - st.crow - 1) |-> Seg("raw", ARTrimWS(Row(src, st.crow + k)))],
               !.line = <<>>, !.crow = tok.r1, !.ccol = 0, !.buf = <<>>]
  ELSE st

AStep(src, st0, tok) ==
  IF st0.done THEN st0
  ELSE IF tok.ty = "end" THEN
    [st0 EXCEPT !.lines = st0.lines \o << st0.line \o Seg(st0.cur, st0.buf) >>, !.done = TRUE]
  ELSE
    LET st == NewRow(src, st0, tok) IN
    IF tok.ty = "newline" THEN st
    ELSE
      LET cur1 == IF st.cur = "none" THEN tok.ty ELSE st.cur
          gap  == IF tok.c1 > st.ccol THEN Cut(Row(src, tok.r1), st.ccol, tok.c1) ELSE <<>>
          buf1 == st.buf \o gap
          flush == cur1 # tok.ty
          line2 == IF flush THEN st.line \o Seg(cur1, buf1) ELSE st.line
          buf2 == IF flush THEN <<>> ELSE buf1
      IN IF tok.r1 < tok.r2 THEN            \* the token spans several rows
           [st EXCEPT !.lines = st.lines \o <<line2>> \o [k \in 1..(Len(tok.s) - 2) |-> Seg(tok.ty, tok.s[k + 1])],
                      !.line = <<>>, !.cur = tok.ty, !.crow = tok.r2, !.ccol = tok.c2,
                      !.buf = Cut(tok.s[Len(tok.s)], 0, tok.c2)]
         ELSE
           [st EXCEPT !.line = line2, !.cur = tok.ty, !.buf = buf2 \o tok.s[1], !.ccol = tok.c2, !.crow = tok.r1]

Assemble(src, toks) == FoldLeft(LAMBDA st, tok : AStep(src, st, tok), AInit, toks).lines

\* what a reader sees of an assembled line
Shown(line) == FoldLeft(LAMBDA acc, sg : acc \o sg.t, <<>>, line)

\* ------------------------------------------------------------------ P
Single(toks, r) == \A k \in 1..Len(toks) : toks[k].r1 = toks[k].r2 \/ r < toks[k].r1 \/ r > toks[k].r2
ARTrimB(s) == LET S == {k \in 1..Len(s) : s[k] \notin {ABlank, "\t", NL}} IN IF S = {} THEN <<>> ELSE
              SubSeq(s, 1, CHOOSE k \in S : \A j \in S : j <= k)
\* shown : Seq(cells), one per assembled line
VerbatimRows(src, toks, shown) ==
  \A r \in 1..Len(src) : Single(toks, r) => (r <= Len(shown) /\ ARTrimB(shown[r]) = ARTrimB(src[r]))
=============================================================================
