------------------------------ MODULE TraceKit ------------------------------
(* Shared by every *Trace module: reading a batch of recorded traces and naming verdicts.
   A batch is a JSON array of traces; a trace is a JSON array of event records.  Every trace is its own
   initial state (tid); the harness reads the printed tuples:
     <<"ACCEPT", tid>>                       the whole trace is a behaviour of the specification
     <<"FAIL", tid, l, clause, key>>         event l broke the named P-clause (property clause); key refines it
     <<"DRIFT", tid, l, clause>>             event l differs from the A-layer (algorithm mirror) only       *)
EXTENDS TLC, Sequences, Naturals, Json, IOUtils

Traces == JsonDeserialize(IOEnv.TRACE_FILE)
NTraces == Len(Traces)

\* IF, not \/: inside an action TLC explores both sides of a disjunction
Check(tid, l, clause, key, cond) == IF cond THEN TRUE ELSE (PrintT(<<"FAIL", tid, l, clause, key>>) /\ FALSE)
Note(tid, l, clause, cond) == IF cond THEN TRUE ELSE PrintT(<<"DRIFT", tid, l, clause>>)
Accept(tid) == PrintT(<<"ACCEPT", tid>>)
=============================================================================
