------------------------------ MODULE Terminal ------------------------------
(* Environment model shared by C15 (Sections), C16 (ProgressBar) and C19 (Spinner): a character-cell
   terminal of fixed width and unbounded height (assumption: no scrolling), VT100 / xterm conventions.

   A terminal is a record
       [w    : width (columns, >= 1),
        rows : Seq(Seq(cell))   every row has at most w cells; cells to the right are blank,
        r    : cursor row (1-based, r <= Len(rows)),
        c    : cursor column (0-based, 0..w-1),
        pw   : BOOLEAN]         deferred ("pending") wrap: the last printable filled column w-1

   Cells are 1-character strings; Blank is the space.  The module has no constants and no variables, so it can
   be EXTENDed or INSTANCEd anywhere; the width travels inside the record.

   An op is a record [k, n, s] produced by harness/engine/termbytes.py (Python only *tokenises* bytes):
       k = "text"  s = the printable characters (a run, never empty)
       k = "lf"    newline of a cooked tty (output goes through ONLCR):  next row, column 0
       k = "cr"    carriage return
       k = "bs"    backspace
       k = "cuu" / "cud" / "cuf" / "cub"   cursor up / down / forward / back by n (0 means 1)
       k = "ed"    erase in display, n = 0 (cursor to end of screen) or 2 (everything)
       k = "el"    erase in line,    n = 0 (cursor to end), 1 (start to cursor), 2 (whole line)
       k = "sgr"   select graphic rendition (colours ...): no effect on the cells
   Any other k is not interpretable: Known(op) is FALSE and the caller must not claim anything.            *)
EXTENDS Naturals, Sequences
LOCAL INSTANCE SequencesExt       \* FoldLeft only (evaluated iteratively by TLC: long op sequences need no deep recursion)

Blank == " "

TMin(a, b) == IF a <= b THEN a ELSE b
TMax(a, b) == IF a >= b THEN a ELSE b
Blanks(n) == [k \in 1..n |-> Blank]                        \* <<>> when n <= 0
EmptyRows(n) == [k \in 1..n |-> <<>>]

TermNew(w) == [w |-> w, rows |-> << <<>> >>, r |-> 1, c |-> 0, pw |-> FALSE]

KnownKinds == {"text", "lf", "cr", "bs", "cuu", "cud", "cuf", "cub", "ed", "el", "sgr"}
Known(op) == /\ op.k \in KnownKinds
             /\ op.k = "ed" => op.n \in {0, 2}
             /\ op.k = "el" => op.n \in {0, 1, 2}
             /\ op.k = "text" => op.s # <<>>

\* ------------------------------------------------------------------ single operations
Arg(n) == IF n = 0 THEN 1 ELSE n                           \* a missing / zero CSI parameter means 1

GoDown(t, n) ==                                             \* rows are created on demand (unbounded height)
  [t EXCEPT !.rows = IF Len(@) >= t.r + n THEN @ ELSE @ \o EmptyRows(t.r + n - Len(@)),
            !.r = t.r + n, !.pw = FALSE]

TLF(t) == [GoDown(t, 1) EXCEPT !.c = 0]                     \* cooked newline = CR LF
TCR(t) == [t EXCEPT !.c = 0, !.pw = FALSE]
TBS(t) == [t EXCEPT !.c = IF @ > 0 THEN @ - 1 ELSE 0, !.pw = FALSE]
TCUU(t, n) == [t EXCEPT !.r = IF @ > Arg(n) THEN @ - Arg(n) ELSE 1, !.pw = FALSE]
TCUD(t, n) == GoDown(t, Arg(n))
TCUF(t, n) == [t EXCEPT !.c = TMin(t.w - 1, @ + Arg(n)), !.pw = FALSE]
TCUB(t, n) == [t EXCEPT !.c = IF @ > Arg(n) THEN @ - Arg(n) ELSE 0, !.pw = FALSE]

\* erase in line (cursor does not move; the pending wrap survives, as in xterm)
Row(t) == t.rows[t.r]
TEL(t, n) ==
  LET row == Row(t)
      new == CASE n = 0 -> SubSeq(row, 1, TMin(t.c, Len(row)))
               [] n = 1 -> Blanks(TMin(t.c + 1, Len(row))) \o SubSeq(row, t.c + 2, Len(row))
               [] OTHER -> <<>>
  IN [t EXCEPT !.rows[t.r] = new]
\* erase in display: 0 = from the cursor to the end of the screen, 2 = everything
TED(t, n) ==
  IF n = 0 THEN [TEL(t, 0) EXCEPT !.rows = SubSeq(@, 1, t.r)]
  ELSE [t EXCEPT !.rows = EmptyRows(t.r)]

\* printable characters.  A run is written row by row; when it fills the last column the cursor stays there
\* with the wrap pending, and the wrap is performed only when the next printable character arrives.
RECURSIVE TText(_, _)
TText(t, s) ==
  IF s = <<>> THEN t
  ELSE IF t.pw THEN TText(TLF(t), s)
  ELSE LET n   == TMin(Len(s), t.w - t.c)
           row == Row(t)
           new == SubSeq(row, 1, TMin(t.c, Len(row))) \o Blanks(t.c - Len(row))
                  \o SubSeq(s, 1, n) \o SubSeq(row, t.c + n + 1, Len(row))
           full == (t.c + n = t.w)
       IN TText([t EXCEPT !.rows[t.r] = new, !.c = IF full THEN t.w - 1 ELSE t.c + n, !.pw = full],
                SubSeq(s, n + 1, Len(s)))

Apply(t, op) ==
  CASE op.k = "text" -> TText(t, op.s)
    [] op.k = "lf"   -> TLF(t)
    [] op.k = "cr"   -> TCR(t)
    [] op.k = "bs"   -> TBS(t)
    [] op.k = "cuu"  -> TCUU(t, op.n)
    [] op.k = "cud"  -> TCUD(t, op.n)
    [] op.k = "cuf"  -> TCUF(t, op.n)
    [] op.k = "cub"  -> TCUB(t, op.n)
    [] op.k = "ed"   -> TED(t, op.n)
    [] op.k = "el"   -> TEL(t, op.n)
    [] OTHER         -> t                                   \* "sgr"

ApplyOps(t, ops) == FoldLeft(LAMBDA tt, op : Apply(tt, op), t, ops)

AllKnown(ops) == \A k \in 1..Len(ops) : Known(ops[k])
OnlyPlain(ops) == \A k \in 1..Len(ops) : ops[k].k \in {"text", "lf"}     \* no control code at all

\* constructors used by the algorithm layers (same shape as the tokenizer's records)
OpText(s) == [k |-> "text", n |-> 0, s |-> s]
OpLF == [k |-> "lf", n |-> 0, s |-> <<>>]
OpCR == [k |-> "cr", n |-> 0, s |-> <<>>]
OpCUU(n) == [k |-> "cuu", n |-> n, s |-> <<>>]
OpED(n) == [k |-> "ed", n |-> n, s |-> <<>>]
OpEL(n) == [k |-> "el", n |-> n, s |-> <<>>]

\* ------------------------------------------------------------------ what a viewer sees
\* (single passes with FoldLeft: TLC re-evaluates LET definitions and function constructors at every reference, so
\*  the obvious set-based formulations are cubic in the row length)
LastNonBlank(row) == FoldLeft(LAMBDA acc, k : IF row[k] # Blank THEN k ELSE acc, 0, [k \in 1..Len(row) |-> k])
RTrim(row) == SubSeq(row, 1, LastNonBlank(row))
VisStep(acc, r) == LET t == RTrim(r) IN
                   [rows |-> Append(acc.rows, t), n |-> acc.n + 1, last |-> IF t # <<>> THEN acc.n + 1 ELSE acc.last]
\* rows without trailing blanks, without the blank rows at the bottom: two screens look alike iff these are equal
Visible(rows) == LET a == FoldLeft(VisStep, [rows |-> <<>>, n |-> 0, last |-> 0], rows) IN SubSeq(a.rows, 1, a.last)
Screen(t) == Visible(t.rows)

\* a logical line printed from column 0 folds into rows of w cells; the empty line still takes a row
RowsNeeded(len, w) == IF len = 0 THEN 1 ELSE (len + w - 1) \div w
Fold(line, w) == [k \in 1..RowsNeeded(Len(line), w) |-> SubSeq(line, (k - 1) * w + 1, TMin(k * w, Len(line)))]
FoldAll(lines, w) == FoldLeft(LAMBDA acc, line : acc \o Fold(line, w), <<>>, lines)

WellFormed(t) == /\ t.r \in 1..Len(t.rows) /\ t.c \in 0..(t.w - 1)
                 /\ \A k \in 1..Len(t.rows) : Len(t.rows[k]) <= t.w
                 /\ t.pw => t.c = t.w - 1
=============================================================================
