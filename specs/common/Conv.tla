-------------------------------- MODULE Conv --------------------------------
(* clikit.utils.string.parse_string / parse_boolean / parse_int / parse_float as constant-level operators.
   Shared by Elements (C07) and ArgsParser (C01, C02, C05).  Text = sequence of 1-character strings.      *)
EXTENDS Integers, Sequences, FiniteSets

\* ------------------------------------------------------------------ conversion (utils.string.parse_*)
\* text = sequence of characters; result = [k |-> "none"|"bool"|"int"|"str"|"float"|"ValueError", ...]
DigitChars == {"0", "1", "2", "3", "4", "5", "6", "7", "8", "9"}
Sp == {" ", "\t", "\n"}
RECURSIVE LStrip(_)
LStrip(t) == IF t # <<>> /\ Head(t) \in Sp THEN LStrip(Tail(t)) ELSE t
RECURSIVE RStrip(_)
RStrip(t) == IF t # <<>> /\ t[Len(t)] \in Sp THEN RStrip(SubSeq(t, 1, Len(t) - 1)) ELSE t
\* Python int(): optional surrounding whitespace, optional sign, digits with single underscores between them
IntBody(t) == /\ t # <<>> /\ t[1] \in DigitChars /\ t[Len(t)] \in DigitChars
              /\ \A k \in 1..Len(t) : t[k] \in DigitChars \/ (t[k] = "_" /\ t[k - 1] # "_")
IntParts(t) == LET u == RStrip(LStrip(t))
                   neg == u # <<>> /\ u[1] = "-"
                   body == IF u # <<>> /\ u[1] \in {"-", "+"} THEN Tail(u) ELSE u
               IN [ok |-> IntBody(body), neg |-> neg, digits |-> SelectSeq(body, LAMBDA c : c # "_")]
RECURSIVE StripZeros(_)
StripZeros(d) == IF Len(d) > 1 /\ Head(d) = "0" THEN StripZeros(Tail(d)) ELSE d
IsNull(t) == t = <<"n", "u", "l", "l">>
BoolTrue == {<<"t", "r", "u", "e">>, <<"1">>, <<"y", "e", "s">>, <<"o", "n">>}
BoolFalse == {<<>>, <<"f", "a", "l", "s", "e">>, <<"0">>, <<"n", "o">>, <<"o", "f", "f">>}

\* A-layer of the conversion for text input (isNone: the Python value None instead of a text)
Conv(type, nullable, isNone, t) ==
  IF nullable /\ (isNone \/ IsNull(t)) THEN [k |-> "none"]
  ELSE CASE type = "str" -> [k |-> "str", v |-> IF isNone THEN <<"n", "u", "l", "l">> ELSE t]
         [] type = "bool" -> IF isNone THEN [k |-> "ValueError"]
                             ELSE IF t \in BoolTrue THEN [k |-> "bool", v |-> TRUE]
                             ELSE IF t \in BoolFalse THEN [k |-> "bool", v |-> FALSE] ELSE [k |-> "ValueError"]
         [] type = "int" -> IF isNone THEN [k |-> "ValueError"]
                            ELSE LET p == IntParts(t) IN
                                 IF p.ok THEN [k |-> "int", neg |-> p.neg /\ StripZeros(p.digits) # <<"0">>,
                                               digits |-> StripZeros(p.digits)]
                                 ELSE [k |-> "ValueError"]
         [] type = "float" -> [k |-> "float?"]      \* float grammar is CPython's: only the P-clauses apply

\* P: the result has the declared type, or is None when nullable, or is a ValueError
ConvTypeOK(type, nullable, res) ==
  \/ res.k = "ValueError"
  \/ (res.k = "none" /\ nullable)
  \/ res.k = type
\* P: canonical text forms map back to their value
CanonInt(neg, digits) == (IF neg THEN <<"-">> ELSE <<>>) \o digits
IsCanonInt(t) == /\ t # <<>>
                 /\ LET d == IF t[1] = "-" THEN Tail(t) ELSE t
                    IN d # <<>> /\ (\A k \in 1..Len(d) : d[k] \in DigitChars) /\ (Len(d) > 1 => d[1] # "0")
                       /\ (t[1] = "-" => d # <<"0">>)
=============================================================================
