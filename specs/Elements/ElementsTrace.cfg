SPECIFICATION TSpec
