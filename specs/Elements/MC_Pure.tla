------------------------------- MODULE MC_Pure -------------------------------
(* Names and typed conversion: no state to speak of - one initial state per case, emitted for replay.
   The invariants quantify the P-clauses over the whole case family.                                *)
EXTENDS Elements, Json

CONSTANTS MaxName, Part      \* Part \in {"names", "conv"}
VARIABLE case
\* <U212A> stands for the Kelvin sign: a letter to str.isalpha() and to case-insensitive matching, not to [A-Za-z]
NameAlpha == {"a", "Z", "1", "-", "_", " ", "<U212A>"}
Names == UNION { [1..k -> NameAlpha] : k \in 0..MaxName }
Prefixes == {<<>>, <<"-">>, <<"-", "-">>}

ConvAlpha == {"0", "1", "9", "-", "+", "_", " ", "n", "u", "l", "t", "r", "e", "."}
Pool == { <<>>, <<"0">>, <<"1">>, <<"-", "0">>, <<"+", "5">>, <<"0", "0", "7">>, <<"1", "_", "0">>, <<" ", "3", " ">>,
          <<"t", "r", "u", "e">>, <<"f", "a", "l", "s", "e">>, <<"o", "n">>, <<"o", "f", "f">>, <<"y", "e", "s">>, <<"n", "o">>,
          <<"n", "u", "l", "l">>, <<"a", "b", "c">>, <<"1", ".", "5">>, <<".", "5">>, <<"1", "e", "2">>, <<"-">>, <<"_", "1">>,
          <<"1", "_">>, <<"1", "_", "_", "0">>, <<"T", "r", "u", "e">>, <<"N", "o", "n", "e">>, <<"-", "4", "2">>,
          <<"9", "9", "9", "9", "9", "9", "9", "9", "9", "9", "9", "9">>,
          <<"i", "n", "f">>, <<"-", "i", "n", "f">>, <<"I", "n", "f", "i", "n", "i", "t", "y">>, <<"n", "a", "n">>,
          <<"1", "e", "9", "9", "9">>, <<"-", "1", "e", "9", "9", "9">>, <<"2", ".", "0">>, <<"0", "x", "1", "0">>, <<"1", "e", "-", "2">> }
Short3 == UNION { [1..k -> {"0", "1", "9", "-", "_", " "}] : k \in 0..3 }
Types == {"str", "bool", "int", "float"}

Init == /\ Start("opt", 0, FALSE, "none")      \* the constructor machine is idle here
        /\ \/ /\ Part = "names"
              /\ \E role \in {"long", "short", "arg", "alias"}, p \in Prefixes, n \in Names :
                case = [part |-> "names", role |-> role, name |-> p \o n,
                        ok |-> CASE role = "long" -> LongNameOK(p \o n)
                                 [] role = "short" -> ShortNameOK(p \o n)
                                 [] role = "arg" -> ArgNameWellFormed(p \o n)
                                 [] role = "alias" -> AliasMust(p \o n),
                        may |-> IF role = "alias" THEN AliasMay(p \o n) ELSE FALSE]
           \/ /\ Part = "conv"
              /\ \E ty \in Types, nl \in BOOLEAN, isNone \in BOOLEAN, t \in Pool \cup Short3 :
                /\ (isNone => t = <<>>)
                /\ case = [part |-> "conv", type |-> ty, nullable |-> nl, isNone |-> isNone, text |-> t,
                           res |-> Conv(ty, nl, isNone, t)]
Next == UNCHANGED <<vars, case>>
Spec == Init /\ [][Next]_<<vars, case>>

ConvTyped == case.part = "conv" => (case.res.k = "float?" \/ ConvTypeOK(case.type, case.nullable, case.res))
CanonIntRoundTrip ==
  (case.part = "conv" /\ case.type = "int" /\ ~case.isNone /\ IsCanonInt(case.text) /\ ~(case.nullable /\ IsNull(case.text)))
     => (case.res.k = "int" /\ CanonInt(case.res.neg, case.res.digits) = case.text)
BoolRoundTrip ==
  (case.part = "conv" /\ case.type = "bool" /\ ~case.isNone) =>
     /\ (case.text = <<"t", "r", "u", "e">> => case.res = [k |-> "bool", v |-> TRUE])
     /\ (case.text = <<"f", "a", "l", "s", "e">> => case.res = [k |-> "bool", v |-> FALSE])
Emit == PrintT(ToJson(case))
=============================================================================
