SPECIFICATION Spec
CONSTANT Kinds = {"opt", "cmdopt", "arg"}
INVARIANT AcceptsExactlyValid
INVARIANT Consistent
INVARIANT UndefinedBitsIgnored
INVARIANT Emit
