---------------------------- MODULE ElementsTrace ----------------------------
(* Observed constructions / conversions of the real Option, CommandOption, Argument checked against Elements.
   One event per trace:
   [part ("ctor"|"name"|"conv"), kind, flags, hasShort, dflt,             -- constructor input
    role, name, nonStr,                                                     -- name input
    type, nullable, isNone, text, hasF, fnum, fden,                         -- conversion input (+ exact value of a float literal)
    obs: [accepted, cls, nflags, dkind, preds, res, reset, again]]                        -- what the real code did            *)
EXTENDS Elements, TraceKit

VARIABLES tid, l
tvars == <<vars, tid, l>>
T == Traces[tid]
Ev == T[l]

TInit == tid \in 1..NTraces /\ l = 1 /\ Start("opt", 0, FALSE, "none")

ValidOf(e) == CASE e.kind = "opt" -> OptValid(e.flags, e.hasShort, e.dflt)
                [] e.kind = "cmdopt" -> CmdOptValid(e.flags, e.hasShort)
                [] e.kind = "arg" -> ArgValid(e.flags, e.dflt)
NormalOf(e) == CASE e.kind = "opt" -> OptNormal(e.flags, e.hasShort)
                 [] e.kind = "cmdopt" -> CmdOptNormal(e.flags, e.hasShort)
                 [] e.kind = "arg" -> ArgNormal(e.flags)

Ctor(e) ==
  /\ Check(tid, l, "P.ctor.accepts", e.kind, e.obs.accepted = ValidOf(e))
  /\ Check(tid, l, "P.ctor.error_kind", e.obs.cls, ~e.obs.accepted => e.obs.cls = "ValueError")
  /\ Check(tid, l, "P.ctor.consistent", e.kind,
           e.obs.accepted => ConsistentObs(e.kind, e.flags, e.dflt, e.obs.nflags, e.obs.dkind))
  /\ Check(tid, l, "P.ctor.reports", e.kind, e.obs.accepted => e.obs.preds = Preds(e.kind, e.obs.nflags))
  \* the same object after its default was withdrawn (a multi-valued element falls back to the empty list, any other to
  \* none) and after the original default was given again
  /\ Check(tid, l, "P.ctor.reset", e.obs.reset, (e.obs.accepted /\ ((e.kind = "arg" /\ ~Preds(e.kind, e.obs.nflags).required) \/ (e.kind = "opt" /\ Preds(e.kind, e.obs.nflags).acceptsValue))) =>
           /\ e.obs.reset = (IF Preds(e.kind, e.obs.nflags).multi THEN "list" ELSE "none")
           /\ e.obs.again = e.obs.dkind)
  /\ Note(tid, l, "A.ctor.nflags", e.obs.accepted => e.obs.nflags = NormalOf(e))

NameOK(e) == /\ ~e.nonStr
             /\ CASE e.role = "long" -> LongNameOK(e.name)
                  [] e.role = "short" -> ShortNameOK(e.name)
                  [] e.role = "arg" -> ArgNameWellFormed(e.name)
                  [] e.role = "alias" -> AliasMust(e.name)
Name(e) ==
  /\ Check(tid, l, "P.name.accepts", e.role, e.role # "alias" => e.obs.accepted = NameOK(e))
  /\ Check(tid, l, "P.alias.accepts", IF e.obs.accepted THEN "accepted" ELSE "rejected",
           (e.role = "alias" /\ ~e.nonStr) => /\ (AliasMust(e.name) => e.obs.accepted)
                                               /\ (~AliasMay(e.name) => ~e.obs.accepted))
  /\ Check(tid, l, "P.alias.kept", "", (e.role = "alias" /\ ~e.nonStr /\ AliasMust(e.name) /\ e.obs.accepted) => e.obs.kept = AliasKept(e.name))
  /\ Check(tid, l, "P.name.error_kind", e.obs.cls, ~e.obs.accepted => e.obs.cls = "ValueError")

ConvEv(e) ==
  /\ Check(tid, l, "P.conv.typed", e.obs.res.k, ConvTypeOK(e.type, e.nullable, e.obs.res))
  /\ Check(tid, l, "P.conv.int_roundtrip", "",
           (e.type = "int" /\ ~e.isNone /\ IsCanonInt(e.text)) =>
              (e.obs.res.k = "int" /\ CanonInt(e.obs.res.neg, e.obs.res.digits) = e.text))
  /\ Check(tid, l, "P.conv.bool_roundtrip", "",
           (e.type = "bool" /\ ~e.isNone /\ e.text \in {<<"t", "r", "u", "e">>, <<"f", "a", "l", "s", "e">>}) =>
              (e.obs.res.k = "bool" /\ e.obs.res.v = (e.text = <<"t", "r", "u", "e">>)))
  /\ Check(tid, l, "P.conv.float_roundtrip", "",
           (e.type = "float" /\ e.hasF) => (e.obs.res.k = "float" /\ e.obs.res.num = e.fnum /\ e.obs.res.den = e.fden))
  \* the text forms of the floats that are no rationals: repr(float("inf")) = "inf", "-inf", "nan"
  /\ Check(tid, l, "P.conv.float_special", "",
           (e.type = "float" /\ ~e.isNone /\ e.text \in {<<"i", "n", "f">>, <<"-", "i", "n", "f">>, <<"n", "a", "n">>}) =>
              (e.obs.res.k = "float" /\ e.obs.res.special = e.text))
  /\ Note(tid, l, "A.conv", e.type = "float" \/ e.hasF \/
           LET m == Conv(e.type, e.nullable, e.isNone, e.text) IN
             /\ m.k = e.obs.res.k
             /\ (m.k = "int" => m.neg = e.obs.res.neg /\ m.digits = e.obs.res.digits)
             /\ (m.k = "bool" => m.v = e.obs.res.v)
             /\ (m.k = "str" => m.v = e.obs.res.chars))

TEvent == /\ l <= Len(T) /\ l' = l + 1 /\ tid' = tid /\ UNCHANGED vars
          /\ CASE Ev.part = "ctor" -> Ctor(Ev)
               [] Ev.part = "name" -> Name(Ev)
               [] Ev.part = "conv" -> ConvEv(Ev)
TDone == /\ l = Len(T) + 1 /\ l' = l + 1 /\ tid' = tid /\ UNCHANGED vars /\ Accept(tid)
TNext == TEvent \/ TDone
TSpec == TInit /\ [][TNext]_tvars
=============================================================================
