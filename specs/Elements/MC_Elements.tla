---------------------------- MODULE MC_Elements ----------------------------
EXTENDS Elements, Json
CONSTANT Kinds

MaxFlags(k) == IF k = "opt" THEN 8191 ELSE IF k = "arg" THEN 2047 ELSE 7
Init == \E k \in Kinds : \E f \in 0..MaxFlags(k), hs \in BOOLEAN, d \in DefaultKinds :
          /\ (k = "arg" => hs = FALSE) /\ (k = "cmdopt" => d = "none")
          /\ Start(k, f, hs, d)
Spec == Init /\ [][Step]_vars
Emit == Done => PrintT(ToJson([kind |-> kind, flags |-> flags, hasShort |-> hasShort, dflt |-> dflt,
                               accepted |-> (pc = "accepted"), nflags |-> nflags, dkind |-> dkind,
                               preds |-> IF pc = "accepted" THEN Preds(kind, nflags) ELSE NoPreds]))
=============================================================================
