SPECIFICATION Spec
CONSTANTS
  MaxName = 0
  Part = "conv"
INVARIANT ConvTyped
INVARIANT CanonIntRoundTrip
INVARIANT BoolRoundTrip
INVARIANT Emit
