------------------------------ MODULE Elements ------------------------------
(* clikit.api.args.format.{AbstractOption, Option, CommandOption, Argument} and utils.string.parse_*
   (property C07): flag words, names, defaults, typed conversion.

   P-layer: *Valid / *Normal operators written from the documented contradictions (docstrings and
            error messages), WellFormed name predicates, ConvType / canonical round trips.
   A-layer: the constructors' own order of work - validate flags, validate names, add default flags,
            set default - as a small step machine; TLC checks that it accepts exactly the valid
            words and reports the normalised ones.                                                  *)
EXTENDS Integers, Sequences, FiniteSets, TLC, Bitwise, Conv

\* ---- option bits (Option / AbstractOption)
PL == 1     \* PREFER_LONG_NAME
PS == 2     \* PREFER_SHORT_NAME
NOV == 4    \* NO_VALUE
REQV == 8   \* REQUIRED_VALUE
OPTV == 16  \* OPTIONAL_VALUE
MULV == 32  \* MULTI_VALUED
OSTR == 128
OBOOL == 256
OINT == 512
OFLT == 1024
ONULL == 2048
\* ---- argument bits
AREQ == 1
AOPT == 2
AMUL == 4
ASTR == 16
ABOOL == 32
AINT == 64
AFLT == 128
ANULL == 256

Has(f, b) == (f & b) # 0
Set(f, b) == IF Has(f, b) THEN f ELSE f + b
Count(f, bits) == Cardinality({b \in bits : Has(f, b)})

OTypes == {OSTR, OBOOL, OINT, OFLT}
ATypes == {ASTR, ABOOL, AINT, AFLT}
\* what is passed as default: nothing, a scalar, a list - or a value Python treats as false although it is a default
DefaultKinds == {"none", "scalar", "list", "falsy", "emptylist", "tuple"}    \* a tuple is a sequence but not a list: a scalar to the rules
Given(d) == d # "none"
NormD(d) == IF d \in {"falsy", "tuple"} THEN "scalar" ELSE IF d = "emptylist" THEN "list" ELSE d

\* ------------------------------------------------------------------ P-layer: flag words
\* documented contradictions of an option
OptFlagsValid(f, hasShort) ==
  /\ ~(Has(f, NOV) /\ (Has(f, REQV) \/ Has(f, OPTV) \/ Has(f, MULV)))   \* value-less vs. any value mode
  /\ ~(Has(f, OPTV) /\ Has(f, MULV))                                    \* optional value cannot be multi-valued
  /\ Count(f, OTypes) <= 1                                              \* at most one value type
  /\ ~(Has(f, PL) /\ Has(f, PS))                                        \* at most one name preference
  /\ (Has(f, PS) => hasShort)                                           \* short preference needs a short name
\* what a constructed option must report
OptNormal(f, hasShort) ==
  LET f1 == IF Has(f, PL) \/ Has(f, PS) THEN f ELSE Set(f, IF hasShort THEN PS ELSE PL)
      f2 == IF Has(f1, NOV) \/ Has(f1, REQV) \/ Has(f1, OPTV) \/ Has(f1, MULV) THEN f1 ELSE Set(f1, NOV)
      f3 == IF Count(f2, OTypes) = 0 THEN Set(f2, OSTR) ELSE f2
      f4 == IF Has(f3, MULV) THEN Set(f3, REQV) ELSE f3
  IN f4
OptValueless(f, hasShort) == Has(OptNormal(f, hasShort), NOV)
OptMulti(f) == Has(f, MULV)
\* defaults: a value-less option has none; a multi-valued one has a list
OptDefaultValid(f, hasShort, d) ==
  /\ (OptValueless(f, hasShort) => ~Given(d))
  /\ (OptMulti(f) => NormD(d) \in {"none", "list"})
OptValid(f, hasShort, d) == OptFlagsValid(f, hasShort) /\ OptDefaultValid(f, hasShort, d)
OptDefaultKind(f, d) == IF OptMulti(f) THEN "list" ELSE NormD(d)

\* command options know only the name preference
CmdOptValid(f, hasShort) == ~(Has(f, PL) /\ Has(f, PS)) /\ (Has(f, PS) => hasShort)
CmdOptNormal(f, hasShort) == IF Has(f, PL) \/ Has(f, PS) THEN f ELSE Set(f, IF hasShort THEN PS ELSE PL)

ArgFlagsValid(f) == ~(Has(f, AREQ) /\ Has(f, AOPT)) /\ Count(f, ATypes) <= 1
ArgNormal(f) ==
  LET f1 == IF Has(f, AREQ) \/ Has(f, AOPT) THEN f ELSE Set(f, AOPT)
  IN IF Count(f1, ATypes) = 0 THEN Set(f1, ASTR) ELSE f1
ArgValid(f, d) == /\ ArgFlagsValid(f)
                  /\ (Has(f, AREQ) => ~Given(d))                  \* a required argument takes no default, whatever its value
                  /\ (Has(f, AMUL) => NormD(d) \in {"none", "list"})
ArgDefaultKind(f, d) == IF Has(f, AMUL) THEN "list" ELSE NormD(d)

\* ------------------------------------------------------------------ P-layer: names (sequences of characters)
Letters == {"a", "Z"}
Digits == {"1"}
NameChar(c) == c \in Letters \/ c \in Digits \/ c = "-"
StripPrefix(n, p) == IF Len(n) >= Len(p) /\ SubSeq(n, 1, Len(p)) = p THEN SubSeq(n, Len(p) + 1, Len(n)) ELSE n
LongWellFormed(n) == Len(n) >= 2 /\ n[1] \in Letters /\ \A k \in 1..Len(n) : NameChar(n[k])
ShortWellFormed(n) == Len(n) = 1 /\ n[1] \in Letters
ArgNameWellFormed(n) == Len(n) >= 1 /\ n[1] \in Letters /\ \A k \in 1..Len(n) : NameChar(n[k])
LongNameOK(n) == LongWellFormed(StripPrefix(n, <<"-", "-">>))      \* with or without the "--" prefix
ShortNameOK(n) == ShortWellFormed(StripPrefix(n, <<"-">>))         \* with or without the "-" prefix
\* An alias of a command option is a long or a short name of its own.  What is claimed: an alias that is a well-formed long
\* name (with or without "--") or short name (with or without "-") is accepted and kept without its prefix, and one that
\* is neither even after removing any leading dashes is rejected; a long name behind a single dash ("-foo") is left open.
AliasMust(n) == LongNameOK(n) \/ ShortNameOK(n)
StripDashes(n) == StripPrefix(StripPrefix(n, <<"-">>), <<"-">>)
AliasMay(n) == LongWellFormed(StripDashes(n)) \/ ShortWellFormed(StripDashes(n))
AliasKept(n) == IF LongNameOK(n) THEN StripPrefix(n, <<"-", "-">>) ELSE StripPrefix(n, <<"-">>)

\* ------------------------------------------------------------------ A-layer: the constructors as a step machine
VARIABLES kind,      \* "opt" | "cmdopt" | "arg"
          flags, hasShort, dflt,      \* the input
          pc,        \* "flags" -> "names" -> "defaults" -> "setdefault" -> "accepted" | "rejected"
          nflags,    \* flag word under construction
          dkind      \* default kind of the object
vars == <<kind, flags, hasShort, dflt, pc, nflags, dkind>>

Start(k, f, hs, d) == /\ kind = k /\ flags = f /\ hasShort = hs /\ dflt = d
                      /\ pc = "flags" /\ nflags = f /\ dkind = "none"

Reject == pc' = "rejected" /\ UNCHANGED <<kind, flags, hasShort, dflt, nflags, dkind>>
Goto(p) == pc' = p /\ UNCHANGED <<kind, flags, hasShort, dflt, nflags, dkind>>

\* _validate_flags (Option's own, then AbstractOption's; Argument's)
TypeClash(f, s, b, i, fl) ==
  IF Has(f, s) THEN Has(f, b) \/ Has(f, i) \/ Has(f, fl)
  ELSE IF Has(f, b) THEN Has(f, i) \/ Has(f, fl)
  ELSE IF Has(f, i) THEN Has(f, fl) ELSE FALSE
ValidateFlags ==
  /\ pc = "flags"
  /\ LET bad ==
       CASE kind = "opt" -> \/ (Has(flags, PS) /\ Has(flags, PL))
                            \/ (Has(flags, NOV) /\ (Has(flags, REQV) \/ Has(flags, OPTV) \/ Has(flags, MULV)))
                            \/ (Has(flags, OPTV) /\ Has(flags, MULV))
                            \/ TypeClash(flags, OSTR, OBOOL, OINT, OFLT)
         [] kind = "cmdopt" -> Has(flags, PS) /\ Has(flags, PL)
         [] kind = "arg" -> (Has(flags, AREQ) /\ Has(flags, AOPT)) \/ TypeClash(flags, ASTR, ABOOL, AINT, AFLT)
     IN IF bad THEN Reject ELSE Goto("names")

\* _validate_short_name: a short-name preference without a short name
ValidateNames ==
  /\ pc = "names"
  /\ IF kind \in {"opt", "cmdopt"} /\ ~hasShort /\ Has(flags, PS) THEN Reject ELSE Goto("defaults")

AddDefaults ==
  /\ pc = "defaults"
  /\ nflags' = CASE kind = "opt" -> OptNormal(flags, hasShort)
                 [] kind = "cmdopt" -> CmdOptNormal(flags, hasShort)
                 [] kind = "arg" -> ArgNormal(flags)
  /\ pc' = IF kind = "cmdopt" THEN "accepted" ELSE "setdefault"
  /\ UNCHANGED <<kind, flags, hasShort, dflt, dkind>>

\* initial default ([] if multi-valued else None), then set_default when a value is accepted or one was given
SetDefault ==
  /\ pc = "setdefault"
  /\ LET multi == IF kind = "opt" THEN Has(nflags, MULV) ELSE Has(nflags, AMUL)
         takes == IF kind = "opt" THEN ~Has(nflags, NOV) ELSE Has(nflags, AOPT)
         forbidden == IF kind = "opt" THEN Has(nflags, NOV) ELSE Has(nflags, AREQ)
         d0 == IF multi THEN "list" ELSE "none"
     IN IF takes \/ dflt # "none"                       \* "default is not None": 0, "" and [] are defaults too
        THEN IF forbidden \/ (multi /\ NormD(dflt) = "scalar") THEN Reject
             ELSE /\ dkind' = (IF multi /\ dflt = "none" THEN "list" ELSE NormD(dflt))
                  /\ pc' = "accepted" /\ UNCHANGED <<kind, flags, hasShort, dflt, nflags>>
        ELSE dkind' = d0 /\ pc' = "accepted" /\ UNCHANGED <<kind, flags, hasShort, dflt, nflags>>

Step == ValidateFlags \/ ValidateNames \/ AddDefaults \/ SetDefault
Done == pc \in {"accepted", "rejected"}

\* ------------------------------------------------------------------ A => P
Valid == CASE kind = "opt" -> OptValid(flags, hasShort, dflt)
           [] kind = "cmdopt" -> CmdOptValid(flags, hasShort)
           [] kind = "arg" -> ArgValid(flags, dflt)
AcceptsExactlyValid == Done => ((pc = "accepted") <=> Valid)
\* a constructed object: exactly one type, one name preference, consistent value mode and default
Consistent ==
  pc = "accepted" =>
    CASE kind = "opt" ->
           /\ Count(nflags, OTypes) = 1 /\ Count(nflags, {PL, PS}) = 1
           /\ (Has(nflags, NOV) => ~Has(nflags, REQV) /\ ~Has(nflags, OPTV) /\ ~Has(nflags, MULV) /\ dkind = "none")
           /\ (Has(nflags, MULV) => Has(nflags, REQV) /\ dkind = "list")
           /\ (Has(nflags, NOV) \/ Has(nflags, REQV) \/ Has(nflags, OPTV))
           /\ dkind = OptDefaultKind(flags, dflt)
      [] kind = "cmdopt" -> Count(nflags, {PL, PS}) = 1
      [] kind = "arg" ->
           /\ Count(nflags, ATypes) = 1 /\ Count(nflags, {AREQ, AOPT}) = 1
           /\ (Has(nflags, AREQ) /\ ~Has(nflags, AMUL) => dkind = "none")
           /\ (Has(nflags, AMUL) => dkind = "list")
           /\ dkind = ArgDefaultKind(flags, dflt)
\* bits the classes do not define never change the verdict
UndefinedBitsIgnored ==
  Done => CASE kind = "opt" -> Valid = OptValid(flags & 4031, hasShort, dflt)     \* 4031 = all defined option bits
            [] kind = "cmdopt" -> Valid = CmdOptValid(flags & 3, hasShort)
            [] kind = "arg" -> Valid = ArgValid(flags & 503, dflt)                  \* 503 = all defined argument bits

\* what the accessor methods of a constructed object report, as a function of its flag word
Preds(k, f) ==
  CASE k = "opt" -> [acceptsValue |-> ~Has(f, NOV), valueRequired |-> Has(f, REQV), valueOptional |-> Has(f, OPTV),
                     multi |-> Has(f, MULV), required |-> FALSE, optional |-> FALSE,
                     longPref |-> Has(f, PL), shortPref |-> Has(f, PS)]
    [] k = "cmdopt" -> [acceptsValue |-> FALSE, valueRequired |-> FALSE, valueOptional |-> FALSE,
                        multi |-> FALSE, required |-> FALSE, optional |-> FALSE,
                        longPref |-> Has(f, PL), shortPref |-> Has(f, PS)]
    [] k = "arg" -> [acceptsValue |-> FALSE, valueRequired |-> FALSE, valueOptional |-> FALSE,
                     multi |-> Has(f, AMUL), required |-> Has(f, AREQ), optional |-> Has(f, AOPT),
                     longPref |-> FALSE, shortPref |-> FALSE]
NoPreds == Preds("cmdopt", 0)

\* the Consistent clauses as a predicate over an observed object
ConsistentObs(k, f0, d0, nf, dk) ==
    CASE k = "opt" ->
           /\ Count(nf, OTypes) = 1 /\ Count(nf, {PL, PS}) = 1
           /\ (Has(nf, NOV) => ~Has(nf, REQV) /\ ~Has(nf, OPTV) /\ ~Has(nf, MULV) /\ dk = "none")
           /\ (Has(nf, MULV) => Has(nf, REQV) /\ dk = "list")
           /\ (Has(nf, NOV) \/ Has(nf, REQV) \/ Has(nf, OPTV))
           /\ dk = OptDefaultKind(f0, d0)
      [] k = "cmdopt" -> Count(nf, {PL, PS}) = 1
      [] k = "arg" ->
           /\ Count(nf, ATypes) = 1 /\ Count(nf, {AREQ, AOPT}) = 1
           /\ (Has(nf, AMUL) => dk = "list")
           /\ dk = ArgDefaultKind(f0, d0)

=============================================================================
