SPECIFICATION Spec
CONSTANTS
  MaxName = 4
  Part = "names"
INVARIANT Emit
