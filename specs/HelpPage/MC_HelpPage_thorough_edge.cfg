SPECIFICATION Spec
CONSTANTS
  Repaired = TRUE
  ShapeSet = {"none", "one", "two", "dflt", "anon", "hidden", "hiddendflt", "twodflt", "deep"}
  QuxSet = {"none", "anon"}
  FooArgSet = {"reqdfl", "long", "nodesc"}
  FooOptSet = {"flag", "three", "nodescdfl"}
  SubArgSet = {"none", "req", "mul"}
  SubOptSet = {"none", "flag"}
  GlobSet = {"nodesc"}
  FooSet = {"plain", "alias"}
  WidthSet = {"edge", "edge3", "w80"}
INVARIANT TypeOK
INVARIANT InvSucceeds
INVARIANT InvComplete
INVARIANT InvHidden
INVARIANT InvFits
INVARIANT InvRequests
INVARIANT InvPageOf
INVARIANT Emit
