SPECIFICATION TSpec
CONSTANTS
  Repaired = TRUE
INVARIANT TypeOK
