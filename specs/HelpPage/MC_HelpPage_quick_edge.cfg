SPECIFICATION Spec
CONSTANTS
  Repaired = TRUE
  ShapeSet = {"one", "dflt", "anon", "hidden", "deep"}
  QuxSet = {"disabled", "anon", "twin"}
  FooArgSet = {"reqdfl", "dflmul"}
  FooOptSet = {"optmul", "nodescdfl"}
  SubArgSet = {"none", "nodescdfl"}
  SubOptSet = {"flag"}
  GlobSet = {"conf"}
  FooSet = {"plain", "hidden"}
  WidthSet = {"edge", "edge3"}
INVARIANT TypeOK
INVARIANT InvSucceeds
INVARIANT InvComplete
INVARIANT InvHidden
INVARIANT InvFits
INVARIANT InvRequests
INVARIANT InvPageOf
INVARIANT Emit
