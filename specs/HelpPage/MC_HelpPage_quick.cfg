SPECIFICATION Spec
CONSTANTS
  Repaired = TRUE
  ShapeSet = {"none", "one", "two", "dflt", "anon", "hidden", "hiddendflt", "twodflt", "deep"}
  QuxSet = {"none", "hidden"}
  FooArgSet = {"none", "three", "nodescdfl"}
  FooOptSet = {"none", "three"}
  SubArgSet = {"none", "reqmul"}
  SubOptSet = {"none", "multi"}
  GlobSet = {"slim", "nodesc"}
  FooSet = {"plain", "alias"}
  WidthSet = {"w40"}
INVARIANT TypeOK
INVARIANT InvSucceeds
INVARIANT InvComplete
INVARIANT InvHidden
INVARIANT InvFits
INVARIANT InvRequests
INVARIANT InvPageOf
INVARIANT Emit
