------------------------------ MODULE HelpPage ------------------------------
(* clikit.ui.help.ApplicationHelp / CommandHelp, the components they are built of (BlockLayout, LabelAlignment,
   LabeledParagraph, Paragraph, EmptyLine, NameVersion) and the two ways a page is requested on the command line
   (HelpTextHandler + HelpResolver: "help <path>", "<path> --help")                                 (property C13)

   P-layer (first part of the file): the property, stated over a *configuration* and the *written lines* only:
            what a page has to list (MustArgs, MustOpts, MustCmds), what it must never mention (Forbidden), the
            precondition on the terminal width (Pre), Fits, and the clause that both request forms print the same page.
            It knows the documented page format only as far as needed to read a page: section headings at the left
            margin, the synopsis lives in the USAGE section, every listed item starts a line with its label.
   A-layer: the algorithm: which elements ApplicationHelp / CommandHelp put into the BlockLayout (_render_help,
            _render_usage, _render_synopsis, _render_argument, _render_option, _render_sub_command, ...),
            LabelAlignment.align, Paragraph.render / LabeledParagraph.render incl. textwrap.wrap with default options
            (greedy fill, long words broken - after a hyphen when there is one -, blanks dropped at line ends, style
            tags counted as text), and the resolution of the command a help request is about.
            Repaired = TRUE models the tree with the proposed fixes C13-*.diff applied (a parameter without description is
            an empty text; a help request parses leniently whatever was cached; hidden default sub-commands stay out of
            the synopsis), FALSE the pinned tree.

   A configuration (JSON-shaped, built by MC_HelpPage or shipped by the driver):
     cfg  = [app, display, ver, help, gargs, gopts, cmds, nl, gw, tnl]
            display: words of the display name; ver: "" = none; help: paragraphs, each a sequence of words;
            gargs: global arguments (every command inherits them; the application page does not show them);
            nl, gw, tnl: how the words of a description are joined in the string given to clikit - every nl-th gap
            (0 = none) is a line separator of gw characters (LF, CR, VT, FF: 1; CR LF: 2) instead of a blank, and tnl says
            that such a separator also ends the description (textwrap turns each of these characters into a blank)
     cmd  = [name, rank, aliases, hidden, enabled, dflt, anon, builtin, desc, help, args, opts, subs]
            rank: position of the name in the sorted order of the names (TLC cannot compare strings)
            desc: words (<<>> = none); subs: commands again (any depth; the families go three levels deep)
     arg  = [name, req, multi, hasDesc, desc, dflt]     dflt: the words of json.dumps(default), <<>> = none
     opt  = [long, short, ps, val, multi, hasDesc, desc, dflt, vn]
            short: "" = none; ps: the short name is the preferred one; val: "no" | "req" | "opt"; vn: value name
   A target is a path of positions: <<>> the application, <<i>> cfg.cmds[i], <<i, j>> cfg.cmds[i].subs[j], ...

   A written line is [g, w, tail]: words w (maximal runs of non-blank characters), g[k] blanks in front of word k,
   tail blanks behind the last word (or the whole line when it has no word).  Words are TLA+ strings:
   TLC can concatenate them, take their length and sub-strings, which is all that is needed.                    *)
EXTENDS Integers, Sequences, FiniteSets, SequencesExt, FiniteSetsExt, TLC

CONSTANT Repaired

Sum(s) == FoldLeft(LAMBDA a, b : a + b, 0, s)
MaxSeq(s) == FoldLeft(LAMBDA a, b : IF b > a THEN b ELSE a, 0, s)
Cat(ss) == FoldLeft(LAMBDA a, b : a \o b, <<>>, ss)
Bigger(a, b) == IF a > b THEN a ELSE b
Map(f(_), s) == [j \in 1..Len(s) |-> f(s[j])]

\* ------------------------------------------------------------------ configurations
Enabled(cs) == SelectSeq(cs, LAMBDA c : c.enabled)
RECURSIVE Descend(_, _)
Descend(c, p) == IF p = <<>> THEN c ELSE Descend(c.subs[Head(p)], Tail(p))
CmdAt(cfg, p) == Descend(cfg.cmds[p[1]], Tail(p))
Prefix(p, n) == SubSeq(p, 1, n)
\* the commands on the way to p (outermost first), without / with p itself
Above(cfg, p) == [n \in 1..(Len(p) - 1) |-> CmdAt(cfg, Prefix(p, n))]
\* arguments: inherited ones first; options: own ones first (ArgsFormat.get_arguments / get_options)
UpArgs(cfg, p) == cfg.gargs \o Cat([n \in 1..(Len(p) - 1) |-> Above(cfg, p)[n].args])
AllArgs(cfg, p) == UpArgs(cfg, p) \o CmdAt(cfg, p).args
BaseOpts(cfg, p) == Cat([n \in 1..(Len(p) - 1) |-> Above(cfg, p)[Len(p) - n].opts]) \o cfg.gopts     \* nearest first
Children(cfg, p) == IF p = <<>> THEN cfg.cmds ELSE CmdAt(cfg, p).subs

\* the name an option is listed under, and the other one ("" when there is none)
Pref(o) == IF o.ps THEN "-" \o o.short ELSE "--" \o o.long
Alt(o) == IF o.ps THEN "--" \o o.long ELSE IF o.short = "" THEN "" ELSE "-" \o o.short
ArgLabel(n) == "<" \o n \o ">"

\* ------------------------------------------------------------------ P-layer: what a page has to show
Listed(c) == c.enabled /\ ~c.hidden /\ ~c.anon              \* "non-hidden named command"
Els(s) == {s[j] : j \in 1..Len(s)}

MustCmds(cfg, p) == {c.name : c \in {x \in Els(Children(cfg, p)) : Listed(x)}}
MustArgs(cfg, p) == IF p = <<>> THEN {} ELSE {a.name : a \in Els(AllArgs(cfg, p))}
OptsOf(cfg, p) == IF p = <<>> THEN cfg.gopts ELSE CmdAt(cfg, p).opts \o BaseOpts(cfg, p)
MustOpts(cfg, p) == {<<Pref(o), Alt(o)>> : o \in Els(OptsOf(cfg, p))}
\* hidden or disabled commands anywhere below the target: neither their names nor their aliases may show up
RECURSIVE Below(_)
Below(cs) == Els(cs) \cup UNION {Below(c.subs) : c \in Els(cs)}
\* (a name the page shows anyway - the target's own and those of the commands above it - is not a leak when a hidden
\*  command further down happens to share it)
OnPath(cfg, p) == UNION {{CmdAt(cfg, Prefix(p, n)).name} \cup Els(CmdAt(cfg, Prefix(p, n)).aliases) : n \in 1..Len(p)}
\* (... nor is a name that a visible command below the target bears as well: `pkg add` hidden, `repo add` visible)
VisibleBelow(cfg, p) ==
  UNION {{c.name} \cup Els(c.aliases) : c \in {x \in Below(Children(cfg, p)) : x.enabled /\ ~x.hidden}}
Forbidden(cfg, p) ==
  (UNION {{c.name} \cup Els(c.aliases) : c \in {x \in Below(Children(cfg, p)) : ~x.enabled \/ x.hidden}})
  \ (OnPath(cfg, p) \cup VisibleBelow(cfg, p))

\* --- reading a page
Headings == {<<"USAGE">>, <<"ARGUMENTS">>, <<"COMMANDS">>, <<"AVAILABLE", "COMMANDS">>, <<"OPTIONS">>,
             <<"GLOBAL", "OPTIONS">>, <<"DESCRIPTION">>}
IsHeading(ln) == ln.w # <<>> /\ ln.g[1] = 0 /\ ln.w \in Headings
InUsage(L, j) == LET hs == {k \in 1..j : IsHeading(L[k])} IN hs # {} /\ L[Max(hs)].w = <<"USAGE">>
Body(L) == {j \in 1..Len(L) : L[j].w # <<>> /\ ~InUsage(L, j)}
Width(ln) == Sum(ln.g) + Sum([k \in 1..Len(ln.w) |-> Len(ln.w[k])]) + ln.tail

ListsArg(L, n) == \E j \in Body(L) : L[j].w[1] = ArgLabel(n)
ListsOpt(L, pr, al) ==
  \E j \in Body(L) : L[j].w[1] = pr /\ (al # "" => (Len(L[j].w) >= 2 /\ L[j].w[2] = "(" \o al \o ")"))
ListsCmd(L, n) == \E j \in Body(L) : L[j].w[1] = n
Mentions(L, n) == \E j \in 1..Len(L) : \E k \in 1..Len(L[j].w) : L[j].w[k] \in {n, "[" \o n \o "]", n \o ","}

MissingArgs(cfg, p, L) == {n \in MustArgs(cfg, p) : ~ListsArg(L, n)}
MissingOpts(cfg, p, L) == {o \in MustOpts(cfg, p) : ~ListsOpt(L, o[1], o[2])}
MissingCmds(cfg, p, L) == {n \in MustCmds(cfg, p) : ~ListsCmd(L, n)}
Shown(cfg, p, L) == {n \in Forbidden(cfg, p) : Mentions(L, n)}
Complete(cfg, p, L) == MissingArgs(cfg, p, L) = {} /\ MissingOpts(cfg, p, L) = {} /\ MissingCmds(cfg, p, L) = {}
Fits(L, T) == \A j \in 1..Len(L) : Width(L[j]) <= T

\* --- the precondition: the terminal is at least as wide as the longest label plus the margin
\*     margin = indentation (at most 6) + label padding (2) + one character of text + the column that is kept free
Margin == 10
OptLabelLen(o) == Len(Pref(o)) + (IF Alt(o) = "" THEN 0 ELSE Len(Alt(o)) + 3)
\* "or: <app> <name> [<name>]": the label of a synopsis line
SynLabelLen(cfg, names) == 4 + Len(cfg.app) + Sum([k \in 1..Len(names) |-> 1 + Len(names[k])]) + 2
NamesOf(cfg, p) == [n \in 1..Len(p) |-> CmdAt(cfg, Prefix(p, n)).name]
LongestLabel(cfg, p) ==
  LET kids == Children(cfg, p)
      own == IF p = <<>> THEN {9}                                  \* "<command>" on the application page
             ELSE {Len(a.name) + 2 : a \in Els(AllArgs(cfg, p))}
      opts == {OptLabelLen(o) : o \in Els(OptsOf(cfg, p))}
      names == {Len(c.name) : c \in Els(kids)}
      nested == UNION {{Len(a.name) + 2 : a \in Els(c.args)} \cup {OptLabelLen(o) : o \in Els(c.opts)}
                       : c \in Els(kids)}
      syn == {SynLabelLen(cfg, NamesOf(cfg, p))}
             \cup (IF p # <<>> THEN {SynLabelLen(cfg, NamesOf(cfg, p) \o <<c.name>>) : c \in Els(kids)} ELSE {})
  IN Max(own \cup opts \cup names \cup nested \cup syn)
Pre(cfg, p, T) == T >= LongestLabel(cfg, p) + Margin

\* ------------------------------------------------------------------ A-layer: text
\* a chunk of running text: r the characters as written (style tags included), t whether it contains style tags,
\* ws whether it is a run of blanks
Wd(s) == [r |-> s, t |-> FALSE, ws |-> FALSE, g |-> 1]            \* g: blanks (or separators) in front of the word
Tg(s) == [r |-> s, t |-> TRUE, ws |-> FALSE, g |-> 1]
Plain(ws) == [j \in 1..Len(ws) |-> Wd(ws[j])]
\* "<tag>w1 w2 ... wn</tag>"
Styled(tag, ws) ==
  IF ws = <<>> THEN <<>>
  ELSE IF Len(ws) = 1 THEN <<Tg("<" \o tag \o ">" \o ws[1] \o "</" \o tag \o ">")>>
  ELSE <<Tg("<" \o tag \o ">" \o ws[1])>> \o Plain(SubSeq(ws, 2, Len(ws) - 1)) \o <<Tg(ws[Len(ws)] \o "</" \o tag \o ">")>>

\* what the formatter makes of a piece of text: complete style tags vanish (PlainFormatter; AnsiFormatter turns them
\* into escape sequences, which take no room); fragments of a tag that was cut by the wrapper stay
Tags == <<"<b>", "</b>", "<u>", "</u>", "<c1>", "</c1>">>
RECURSIVE StripFrom(_, _)
StripFrom(s, i) ==
  IF i > Len(s) THEN ""
  ELSE LET m == {k \in 1..Len(Tags) : i + Len(Tags[k]) - 1 <= Len(s) /\ SubSeq(s, i, i + Len(Tags[k]) - 1) = Tags[k]}
       IN IF m # {} THEN StripFrom(s, i + Len(Tags[CHOOSE k \in m : TRUE]))
          ELSE SubSeq(s, i, i) \o StripFrom(s, i + 1)
Vis(c) == IF c.t THEN StripFrom(c.r, 1) ELSE c.r

\* textwrap.wrap(text, width) with default options.  Chunks: the words with one blank chunk between two words
\* (the texts of a help page are words joined by single blanks or newlines; newlines count as blanks).
Spaces(n) == IF n = 1 THEN " " ELSE IF n = 2 THEN "  " ELSE IF n = 3 THEN "   " ELSE "    "
Gap(n) == [r |-> Spaces(n), t |-> FALSE, ws |-> TRUE, g |-> 0]                \* a run of n blanks / newlines (n <= 4)
Chunks(text) == Cat([j \in 1..Len(text) |-> IF j = 1 THEN <<text[j]>> ELSE <<Gap(text[j].g), text[j]>>])
\* a description as the application wrote it: K = [k, w, t], every k-th gap is w characters wide (see cfg.nl, gw, tnl)
KOf(cfg) == [k |-> cfg.nl, w |-> cfg.gw, t |-> cfg.tnl]
User(ws, K) == [j \in 1..Len(ws) |-> [Wd(ws[j]) EXCEPT !.g = IF j > 1 /\ K.k > 0 /\ (j - 1) % K.k = 0 THEN K.w ELSE 1]]
\* ... followed by what the help page appends to it (" <b>default</b>"): a trailing separator widens that gap
WithSuffix(desc, suffix, K) ==
  IF desc = <<>> \/ suffix = <<>> THEN desc \o suffix
  ELSE desc \o [suffix EXCEPT ![1].g = 1 + (IF K.t THEN K.w ELSE 0)]
IsWhite(c) == c.ws \/ c.r = ""                                      \* chunk.strip() == ''

\* the inner loop of _wrap_chunks: chunks are taken while they fit
RECURSIVE Fill(_, _, _, _)
Fill(ch, w, cur, len) ==
  IF ch = <<>> THEN [cur |-> cur, len |-> len, rest |-> ch]
  ELSE IF len + Len(Head(ch).r) <= w THEN Fill(Tail(ch), w, Append(cur, Head(ch)), len + Len(Head(ch).r))
  ELSE [cur |-> cur, len |-> len, rest |-> ch]

\* _handle_long_word: the part of a chunk that goes onto the current line; broken after the last hyphen in reach
\* when something other than hyphens precedes it
HyphenEnd(s, sp) ==
  LET H == {h \in 1..sp : SubSeq(s, h, h) = "-"}
  IN IF H = {} THEN sp
     ELSE LET h == Max(H) IN IF h > 1 /\ (\E j \in 1..(h - 1) : SubSeq(s, j, j) # "-") THEN h ELSE sp

RECURSIVE WrapLines(_, _, _)
WrapLines(ch, w, lines) ==
  IF ch = <<>> THEN lines
  ELSE LET ch1 == IF IsWhite(Head(ch)) /\ lines # <<>> THEN Tail(ch) ELSE ch       \* blanks dropped at a line start
           F == Fill(ch1, w, <<>>, 0)
           long == IF F.rest = <<>> THEN FALSE ELSE Len(Head(F.rest).r) > w
           G == IF long
                THEN LET c == Head(F.rest)
                         e == HyphenEnd(c.r, w - F.len)
                     IN [cur |-> Append(F.cur, [c EXCEPT !.r = SubSeq(c.r, 1, e)]),
                         rest |-> <<[c EXCEPT !.r = SubSeq(c.r, e + 1, Len(c.r))]>> \o Tail(F.rest)]
                ELSE [cur |-> F.cur, rest |-> F.rest]
           cur2 == IF G.cur = <<>> THEN G.cur                                           \* blanks dropped at a line end
                   ELSE IF IsWhite(G.cur[Len(G.cur)]) THEN SubSeq(G.cur, 1, Len(G.cur) - 1) ELSE G.cur
       IN WrapLines(G.rest, w, IF cur2 = <<>> THEN lines ELSE Append(lines, cur2))
Wrap(chunks, w) == WrapLines(chunks, w, <<>>)

\* a line is put together from segments [b, s, inv]: b blanks followed by the characters s ("" = nothing);
\* inv: characters that take no room follow (a style tag on its own) - blanks in front of them are not "trailing"
\* for str.rstrip(), which the components apply before the text is formatted
Seg(b, s) == [b |-> b, s |-> s, inv |-> FALSE]
InvSeg == [b |-> 0, s |-> "", inv |-> TRUE]
MkLine(segs, stripped) ==
  LET r == FoldLeft(LAMBDA acc, x : IF x.inv THEN [acc EXCEPT !.keep = acc.pend]
                                      ELSE IF x.s = "" THEN [acc EXCEPT !.pend = @ + x.b]
                                      ELSE [g |-> Append(acc.g, acc.pend + x.b), w |-> Append(acc.w, x.s), pend |-> 0, keep |-> 0],
                    [g |-> <<>>, w |-> <<>>, pend |-> 0, keep |-> 0], segs)
  IN [g |-> r.g, w |-> r.w, tail |-> IF stripped THEN r.keep ELSE r.pend]
LineSegs(chunks) ==
  [j \in 1..Len(chunks) |-> IF chunks[j].ws THEN Seg(Len(chunks[j].r), "")
                            ELSE LET v == Vis(chunks[j]) IN IF v = "" /\ chunks[j].r # "" THEN InvSeg ELSE Seg(0, v)]
EmptyLn == [g |-> <<>>, w |-> <<>>, tail |-> 0]

\* ------------------------------------------------------------------ A-layer: components
\* elements of the layout: k = "para" | "empty" | "lab"; ind: indentation given by the layout block; text: chunks;
\* lab: the visible words of a label, lead: blanks in front of it (the "    " of the first synopsis line)
ParaCh(ind, ch) == [k |-> "para", ind |-> ind, lead |-> 0, lab |-> <<>>, text |-> ch, pad |-> 0, al |-> FALSE, none |-> FALSE]
Para(ind, text) == ParaCh(ind, Chunks(text))
EmptyEl == [k |-> "empty", ind |-> 0, lead |-> 0, lab |-> <<>>, text |-> <<>>, pad |-> 0, al |-> FALSE, none |-> FALSE]
Lab(ind, lead, lab, text, pad, al, none) ==
  [k |-> "lab", ind |-> ind, lead |-> lead, lab |-> lab, text |-> Chunks(text), pad |-> pad, al |-> al, none |-> none]
LabLen(e) == e.lead + Sum([k \in 1..Len(e.lab) |-> Len(e.lab[k])]) + (IF e.lab = <<>> THEN 0 ELSE Len(e.lab) - 1)

\* LabelAlignment.align: the text column of all aligned labelled paragraphs of the page
AlignOffset(els) ==
  MaxSeq([j \in 1..Len(els) |-> IF els[j].k = "lab" /\ els[j].al THEN els[j].ind + LabLen(els[j]) + els[j].pad ELSE 0])

\* result of rendering one element: [ok, lines]
Fail == [ok |-> FALSE, lines |-> <<>>]
RenderPara(e, T) ==
  LET width == T - 1 - e.ind
  IN IF width <= 0 THEN Fail                                              \* textwrap: ValueError("invalid width")
     ELSE LET wl == Wrap(e.text, width)
          IN [ok |-> TRUE,
              lines |-> IF wl = <<>> THEN <<[g |-> <<>>, w |-> <<>>, tail |-> e.ind]>>   \* the prefix is not stripped
                        ELSE [j \in 1..Len(wl) |-> MkLine(<<Seg(e.ind, "")>> \o LineSegs(wl[j]), j = Len(wl))]]

RenderLab(e, T, off) ==
  LET ll == LabLen(e)
      offset == Bigger(IF e.al THEN off - e.ind ELSE 0, ll + e.pad)
      width == T - 1 - offset - e.ind
      labsegs == [k \in 1..Len(e.lab) |-> Seg(IF k = 1 THEN e.ind + e.lead ELSE 1, e.lab[k])]
      head == IF e.lab = <<>> THEN <<Seg(e.ind + e.lead, "")>> ELSE labsegs
  IN IF e.none /\ ~Repaired THEN Fail                                     \* None + str / textwrap.wrap(None)
     ELSE IF width <= 0 THEN Fail
     ELSE LET wl == Wrap(e.text, width)
          IN [ok |-> TRUE,
              lines |-> IF wl = <<>> THEN <<MkLine(head, TRUE)>>
                        ELSE [j \in 1..Len(wl) |->
                                 MkLine((IF j = 1 THEN head \o <<Seg(offset - ll, "")>> ELSE <<Seg(e.ind + offset, "")>>)
                                        \o LineSegs(wl[j]), j = Len(wl))]]

RenderEl(e, T, off) ==
  IF e.k = "empty" THEN [ok |-> TRUE, lines |-> <<EmptyLn>>]
  ELSE IF e.k = "para" THEN RenderPara(e, T)
  ELSE RenderLab(e, T, off)

\* BlockLayout.render: the elements in order; an exception ends the page
RenderAll(els, T, off) ==
  FoldLeft(LAMBDA acc, e : IF ~acc.ok THEN acc
                           ELSE LET r == RenderEl(e, T, off)
                                IN [ok |-> r.ok, lines |-> acc.lines \o r.lines],
           [ok |-> TRUE, lines |-> <<>>], els)

\* ------------------------------------------------------------------ A-layer: what goes onto a page
Heading(ws) == Para(0, Styled("b", ws))

\* AbstractHelp._render_argument
ArgEl(a, ind, K) ==
  Lab(ind, 0, <<ArgLabel(a.name)>>,
      WithSuffix(IF a.hasDesc THEN User(a.desc, K) ELSE <<>>, Styled("b", a.dflt), K), 2, TRUE, ~a.hasDesc)

\* AbstractHelp._render_option
OptEl(o, ind, K) ==
  LET dfl == IF o.val # "no" /\ o.dflt # <<>>
             THEN Styled("b", <<"(default:">> \o SubSeq(o.dflt, 1, Len(o.dflt) - 1) \o <<o.dflt[Len(o.dflt)] \o ")">>)
             ELSE <<>>
      mul == IF o.multi THEN Styled("b", <<"(multiple", "values", "allowed)">>) ELSE <<>>
  IN Lab(ind, 0, <<Pref(o)>> \o (IF Alt(o) = "" THEN <<>> ELSE <<"(" \o Alt(o) \o ")">>),
         WithSuffix(IF o.hasDesc THEN User(o.desc, K) ELSE <<>>, dfl \o mul, K), 2, TRUE, ~o.hasDesc)

\* AbstractHelp._render_synopsis; "~" stands for the no-break space between an option and its value
SynOpt(o) == "[" \o Pref(o) \o (IF o.val = "req" THEN "~<" \o o.vn \o ">" ELSE IF o.val = "opt" THEN "~[<" \o o.vn \o ">]" ELSE "") \o "]"
SynArg(a) ==
  LET n == IF a.multi THEN a.name \o "1" ELSE a.name
  IN <<IF a.req THEN "<" \o n \o ">" ELSE "[<" \o n \o ">]">>
     \o (IF a.multi THEN <<"...", "[<" \o a.name \o "N>]">> ELSE <<>>)
\* f = [names, lastopt, opts, args]; prefix = "" | "pad" | "or"
Synopsis(cfg, f, prefix) ==
  LET n == Len(f.names)
      names == IF f.lastopt /\ n > 0 THEN [k \in 1..n |-> IF k = n THEN "[" \o f.names[k] \o "]" ELSE f.names[k]]
               ELSE f.names
      app == IF f.lastopt /\ n = 0 THEN "[" \o cfg.app \o "]" ELSE cfg.app
  IN Lab(2, IF prefix = "pad" THEN 4 ELSE 0, (IF prefix = "or" THEN <<"or:">> ELSE <<>>) \o <<app>> \o names,
         Plain(Map(SynOpt, f.opts) \o Cat(Map(SynArg, f.args))), 1, FALSE, FALSE)

OptionBlock(title, opts, K) ==
  IF opts = <<>> THEN <<>> ELSE <<Heading(title)>> \o [j \in 1..Len(opts) |-> OptEl(opts[j], 2, K)] \o <<EmptyEl>>
DescriptionBlock(help) ==
  IF help = <<>> THEN <<>>
  ELSE <<Heading(<<"DESCRIPTION">>)>> \o [j \in 1..Len(help) |-> Para(2, Plain(help[j]))] \o <<EmptyEl>>
ByName(cs) == SortSeq(cs, LAMBDA a, b : a.rank < b.rank)

\* the help text of a sub-command is one paragraph there: its newlines count as blanks, an empty paragraph in between
\* makes the run of blanks longer (a help text neither starts nor ends with an empty paragraph)
JoinedHelp(help) ==
  LET r == FoldLeft(LAMBDA acc, par : IF par = <<>> THEN [acc EXCEPT !.gap = @ + 1]
                                        ELSE [ch |-> acc.ch \o (IF acc.ch = <<>> THEN <<>> ELSE <<Gap(acc.gap)>>) \o Chunks(Plain(par)),
                                              gap |-> 1],
                    [ch |-> <<>>, gap |-> 1], help)
  IN r.ch

\* CommandHelp._render_sub_command
SubCmdEls(s, K) ==
  IF s.hidden THEN <<>>
  ELSE <<Para(2, Styled("u", <<s.name>>))>>
       \o (IF s.desc # <<>> THEN <<Para(4, User(s.desc, K)), EmptyEl>> ELSE <<>>)
       \o (IF s.help # <<>> THEN <<ParaCh(4, JoinedHelp(s.help)), EmptyEl>> ELSE <<>>)
       \o (IF s.args # <<>> THEN [j \in 1..Len(s.args) |-> ArgEl(s.args[j], 4, K)] \o <<EmptyEl>> ELSE <<>>)
       \o (IF s.opts # <<>> THEN [j \in 1..Len(s.opts) |-> OptEl(s.opts[j], 4, K)] \o <<EmptyEl>> ELSE <<>>)
       \o (IF s.desc = <<>> /\ s.help = <<>> /\ s.args = <<>> /\ s.opts = <<>> THEN <<EmptyEl>> ELSE <<>>)

\* CommandHelp._render_help
CommandEls(cfg, p) ==
  LET c == CmdAt(cfg, p)
      K == KOf(cfg)
      subs == Enabled(c.subs)
      upnames == NamesOf(cfg, Prefix(p, Len(p) - 1))
      upargs == UpArgs(cfg, p)
      ownf == [names |-> upnames \o (IF c.anon THEN <<>> ELSE <<c.name>>), lastopt |-> FALSE, opts |-> c.opts,
               args |-> upargs \o c.args]
      SubF(s, opt) == [names |-> upnames \o <<c.name>> \o (IF s.anon THEN <<>> ELSE <<s.name>>), lastopt |-> opt, opts |-> s.opts,
                       args |-> upargs \o c.args \o s.args]
      dsubs == SelectSeq(subs, LAMBDA s : s.dflt)
      \* repaired: hidden default sub-commands are not printed either
      dshown == IF Repaired THEN SelectSeq(dsubs, LAMBDA s : ~s.hidden) ELSE dsubs
      others == SelectSeq(subs, LAMBDA s : ~s.hidden /\ ~s.dflt)
      fmts == (IF dshown # <<>> THEN [j \in 1..Len(dshown) |-> SubF(dshown[j], ~dshown[j].anon)] ELSE <<ownf>>)
              \o [j \in 1..Len(others) |-> SubF(others[j], FALSE)]
      usage == [j \in 1..Len(fmts) |-> Synopsis(cfg, fmts[j], IF Len(fmts) = 1 THEN "" ELSE IF j = 1 THEN "pad" ELSE "or")]
      aliases == IF c.aliases = <<>> THEN <<>>
                 ELSE <<EmptyEl, Para(2, Plain(<<"aliases:">>
                            \o [j \in 1..Len(c.aliases) |-> IF j < Len(c.aliases) THEN c.aliases[j] \o "," ELSE c.aliases[j]]))>>
      args == upargs \o c.args
      named == SelectSeq(subs, LAMBDA s : ~s.anon)
  IN <<Heading(<<"USAGE">>)>> \o usage \o aliases \o <<EmptyEl>>
     \o (IF args # <<>> THEN <<Heading(<<"ARGUMENTS">>)>> \o [j \in 1..Len(args) |-> ArgEl(args[j], 2, K)] \o <<EmptyEl>> ELSE <<>>)
     \o (IF named # <<>> THEN <<Heading(<<"COMMANDS">>)>> \o Cat([j \in 1..Len(named) |-> SubCmdEls(ByName(named)[j], K)]) ELSE <<>>)
     \o OptionBlock(<<"OPTIONS">>, c.opts, K)
     \o OptionBlock(<<"GLOBAL", "OPTIONS">>, BaseOpts(cfg, p), K)
     \o DescriptionBlock(c.help)

\* ApplicationHelp._render_help
CommandArg == [name |-> "command", req |-> TRUE, multi |-> FALSE, hasDesc |-> TRUE,
               desc |-> <<"The", "command", "to", "execute">>, dflt |-> <<>>]
ArgArg == [name |-> "arg", req |-> FALSE, multi |-> TRUE, hasDesc |-> TRUE,
           desc |-> <<"The", "arguments", "of", "the", "command">>, dflt |-> <<>>]
ApplicationEls(cfg) ==
  LET K == KOf(cfg)
      NoK == [k |-> 0, w |-> 1, t |-> FALSE]
      named == SelectSeq(Enabled(cfg.cmds), LAMBDA c : ~c.anon)
      shown == SelectSeq(ByName(named), LAMBDA c : ~c.hidden)
      title == IF cfg.display # <<>> /\ cfg.ver # "" THEN Plain(cfg.display) \o <<Wd("version")>> \o Styled("c1", <<cfg.ver>>)
               ELSE IF cfg.display # <<>> THEN Plain(cfg.display)
               ELSE Plain(<<"Console", "Tool">>)
  IN <<Para(0, title), EmptyEl, Heading(<<"USAGE">>),
       Synopsis(cfg, [names |-> <<>>, lastopt |-> FALSE, opts |-> cfg.gopts, args |-> <<CommandArg, ArgArg>>], ""),
       EmptyEl, Heading(<<"ARGUMENTS">>), ArgEl(CommandArg, 2, NoK), ArgEl(ArgArg, 2, NoK), EmptyEl>>
     \o OptionBlock(<<"GLOBAL", "OPTIONS">>, cfg.gopts, K)
     \o (IF named # <<>>
         THEN <<Heading(<<"AVAILABLE", "COMMANDS">>)>>
              \o [j \in 1..Len(shown) |-> Lab(2, 0, <<shown[j].name>>, User(shown[j].desc, K), 2, TRUE, FALSE)] \o <<EmptyEl>>
         ELSE <<>>)
     \o DescriptionBlock(cfg.help)

Elements(cfg, p) == IF p = <<>> THEN ApplicationEls(cfg) ELSE CommandEls(cfg, p)
\* the whole page in one go: [ok, lines]
PageOf(cfg, p, T) == LET els == Elements(cfg, p) IN RenderAll(els, T, AlignOffset(els))

\* pages that can be asked for: the application, every enabled command, every enabled sub-command of those
RECURSIVE PathsBelow(_, _)
PathsBelow(cs, pre) ==       \* the enabled commands among cs and everything enabled below them, as paths
  Cat([i \in 1..Len(cs) |-> IF ~cs[i].enabled THEN <<>> ELSE <<Append(pre, i)>> \o PathsBelow(cs[i].subs, Append(pre, i))])
Targets(cfg) == <<<<>>>> \o PathsBelow(cfg.cmds, <<>>)

\* ------------------------------------------------------------------ A-layer: which page a help request shows
\* A request names a command by its path q of positions (<<>>: no command at all).
\* The resolver walks the names, then looks at the default sub-commands of the command it ended on: the first one
\* whose *strict* parse of the request succeeds, else the first one (DefaultResolver.process_default_commands).
\* The request has no arguments beside the names, so the strict parse succeeds iff nothing is required.
NeedsArgs(cfg, p) == \E a \in Els(AllArgs(cfg, p)) : a.req
Resolve(cfg, q) ==
  IF q = <<>> THEN [p |-> <<>>, viaDefault |-> FALSE]
  ELSE LET subs == CmdAt(cfg, q).subs
           ds == {n \in 1..Len(subs) : subs[n].enabled /\ subs[n].dflt}
           ok == {n \in ds : ~NeedsArgs(cfg, Append(q, n))}
       IN IF ds = {} THEN [p |-> q, viaDefault |-> FALSE]
          ELSE [p |-> Append(q, IF ok # {} THEN Min(ok) ELSE Min(ds)), viaDefault |-> TRUE]
\* HelpResolver.create_resolved_command: pinned tree - the strict verdict cached by ResolveResult is used although
\* leniency has just been switched on; repaired - the request is parsed again, leniently
RequestFails(cfg, q) ==
  LET r == Resolve(cfg, q) IN ~Repaired /\ r.viaDefault /\ NeedsArgs(cfg, r.p)

\* requests TLC goes through: every enabled named command at any depth that is not the built-in help command
\* (known finding C13-help-help: "help --help" shows the application page, "help help" the page of the help command)
RECURSIVE NamedBelow(_, _)
NamedBelow(cs, pre) ==
  Cat([i \in 1..Len(cs) |-> IF ~cs[i].enabled \/ cs[i].anon \/ cs[i].builtin THEN <<>>
                            ELSE <<Append(pre, i)>> \o NamedBelow(cs[i].subs, Append(pre, i))])
Requests(cfg) == <<<<>>>> \o NamedBelow(cfg.cmds, <<>>)

\* ------------------------------------------------------------------ A-layer: state
VARIABLES cfg,     \* the configuration
          tw,      \* terminal width
          pc,      \* "build" | "align" | "render" | "request" | "done"
          k,       \* index into Targets(cfg) while pages are rendered, into Requests(cfg) afterwards
          els,     \* BlockLayout._elements (with their indentations)
          off,     \* LabelAlignment._text_offset
          pages,   \* finished pages: [p, ok, lines]
          reqs     \* answered requests: [q, p, ok] for both request forms (they share everything after the listener)
vars == <<cfg, tw, pc, k, els, off, pages, reqs>>

Start(c, T) == cfg = c /\ tw = T /\ pc = "build" /\ k = 1 /\ els = <<>> /\ off = 0 /\ pages = <<>> /\ reqs = <<>>

Build == /\ pc = "build"
         /\ els' = Elements(cfg, Targets(cfg)[k]) /\ pc' = "align"
         /\ UNCHANGED <<cfg, tw, k, off, pages, reqs>>
Align == /\ pc = "align"
         /\ off' = AlignOffset(els) /\ pc' = "render"
         /\ UNCHANGED <<cfg, tw, k, els, pages, reqs>>
Render == /\ pc = "render"
          /\ LET r == RenderAll(els, tw, off)
             IN pages' = Append(pages, [p |-> Targets(cfg)[k], ok |-> r.ok, lines |-> r.lines])
          /\ IF k < Len(Targets(cfg)) THEN k' = k + 1 /\ pc' = "build" ELSE k' = 1 /\ pc' = "request"
          /\ els' = <<>> /\ off' = 0
          /\ UNCHANGED <<cfg, tw, reqs>>
Request == /\ pc = "request"
           /\ LET q == Requests(cfg)[k]
                  r == Resolve(cfg, q)
              IN reqs' = Append(reqs, [q |-> q, p |-> r.p, ok |-> ~RequestFails(cfg, q)])
           /\ IF k < Len(Requests(cfg)) THEN k' = k + 1 /\ pc' = pc ELSE k' = k /\ pc' = "done"
           /\ UNCHANGED <<cfg, tw, els, off, pages>>
Step == Build \/ Align \/ Render \/ Request

\* ------------------------------------------------------------------ A => P, checked by TLC
\* (evaluated when an application is finished: every page and every request of it at once)
Done == pc = "done"
InvSucceeds == Done => \A n \in 1..Len(pages) : Pre(cfg, pages[n].p, tw) => pages[n].ok
InvComplete == Done => \A n \in 1..Len(pages) : pages[n].ok => Complete(cfg, pages[n].p, pages[n].lines)
InvHidden == Done => \A n \in 1..Len(pages) : pages[n].ok => Shown(cfg, pages[n].p, pages[n].lines) = {}
InvFits == Done => \A n \in 1..Len(pages) : (pages[n].ok /\ Pre(cfg, pages[n].p, tw)) => Fits(pages[n].lines, tw)
\* a request is answered with status 0 and - both forms alike - with the page of the command it resolves to
InvRequests == Done => \A n \in 1..Len(reqs) : reqs[n].ok
\* the three steps of a page amount to PageOf (which the trace specification uses)
InvPageOf == Done => \A n \in 1..Len(pages) :
                LET r == PageOf(cfg, pages[n].p, tw) IN r.ok = pages[n].ok /\ r.lines = pages[n].lines
TypeOK == pc \in {"build", "align", "render", "request", "done"}
=============================================================================
