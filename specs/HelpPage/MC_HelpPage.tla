---------------------------- MODULE MC_HelpPage ----------------------------
(* C13: families of small applications.  Every (application, terminal width) of the family is one initial state;
   the A-layer renders the application page and the page of every enabled command / sub-command, then answers the
   help requests; the P-invariants are checked on the written lines and the finished behaviour is emitted for replay
   on the real ApplicationHelp / CommandHelp / ConsoleApplication.run.

   The application is always: the slim default configuration (global option -h/--help, the built-in default command
   "help") + optionally one more global option + command "foo" (arguments FooArgs, options FooOpts, sub-commands
   from a shape) + optionally a second command "qux".                                                        *)
EXTENDS HelpPage, Json

CONSTANTS ShapeSet, QuxSet, FooArgSet, FooOptSet, SubArgSet, SubOptSet, GlobSet, FooSet, WidthSet

\* ------------------------------------------------------------------ texts
Short == <<"does", "things">>
\* tokens without a blank that are longer than any text column at width 40: the wrapper has to cut them - anywhere
\* (LongWord) or after the last hyphen in reach (HyphWord; none of its hyphens stands between two pairs of letters, so
\* textwrap does not split it into chunks beforehand)
LongWord == "https://example.org/docs/gettingstarted/installguide.html"
HyphWord == "/srv/data-2026/build-42/artifacts_0001/output-7.tar.gz"
Long == <<"reads", "the", "internationalization", "tables", LongWord, "and", "writes", "every", "entry", "that", "is", "new",
          "or", "has", "changed", "since", "the", "last", "run", "to", "the", "given", "place", HyphWord,
          \* braces: a description is text, not a format string
          "as", "{name}:", "{0}", "{}", "or", "{">>
None == <<>>
HelpText == <<<<"Use", "it", "wisely", "and", "often,", "see", LongWord>>, <<>>,
              <<"Second", "paragraph", "of", "the", "manual:", HyphWord, "too.">>>>

\* ------------------------------------------------------------------ arguments and options
Arg(n, req, multi, hasDesc, desc, dflt) ==
  [name |-> n, req |-> req, multi |-> multi, hasDesc |-> hasDesc, desc |-> desc, dflt |-> dflt]
Opt(long, short, ps, val, multi, hasDesc, desc, dflt) ==
  [long |-> long, short |-> short, ps |-> ps, val |-> val, multi |-> multi, hasDesc |-> hasDesc, desc |-> desc, dflt |-> dflt,
   vn |-> "..."]

ASrc == Arg("src", TRUE, FALSE, TRUE, Short, None)
ADst == Arg("dst", FALSE, FALSE, FALSE, None, None)                       \* no description
AMode == Arg("mode", FALSE, FALSE, TRUE, Long, <<"\"fast\"">>)
ARest == Arg("rest", FALSE, TRUE, TRUE, Short, <<"[\"a\",", "\"b\"]">>)
ALvl == Arg("lvl", FALSE, FALSE, FALSE, None, <<"3">>)                    \* no description, but a default
AItem == Arg("item", TRUE, FALSE, TRUE, Short, None)
AExtra == Arg("extra", FALSE, FALSE, FALSE, None, <<"true">>)
AMore == Arg("more", FALSE, TRUE, TRUE, Long, <<"[\"z\"]">>)                \* multi-valued, a default list of one element

OForce == Opt("force", "f", TRUE, "no", FALSE, TRUE, Short, None)
ODry == Opt("dry", "", FALSE, "no", FALSE, FALSE, None, None)              \* long name only, no description
OOut == [Opt("out", "o", FALSE, "req", FALSE, TRUE, Long, <<"\"x.txt\"">>)  \* long name preferred although a short one exists;
         EXCEPT !.vn = "file"]                                                  \* a value name of its own
OLevel == Opt("level", "l", TRUE, "opt", FALSE, TRUE, Short, <<"2">>)
OTag == Opt("tag", "", FALSE, "req", TRUE, TRUE, Short, <<"[\"a\",", "\"b\"]">>)
ORate == Opt("rate", "", FALSE, "req", FALSE, FALSE, None, <<"1.5">>)      \* no description, but a default
OKeep == Opt("keep", "k", TRUE, "no", FALSE, TRUE, Long, None)
OSize == Opt("size", "s", TRUE, "req", TRUE, FALSE, None, <<"[7]">>)                 \* ... and an option with one
OHelp == Opt("help", "h", TRUE, "no", FALSE, TRUE, <<"Display", "this", "help", "message">>, None)
OConf == Opt("conf", "c", TRUE, "req", FALSE, TRUE, Short, <<"\"app.ini\"">>)
OVerb == Opt("verbose", "", FALSE, "opt", FALSE, FALSE, None, None)
OKeepAll == Opt("all", "a", TRUE, "no", FALSE, TRUE, Short, None)
OThird == Opt("third", "t", TRUE, "no", FALSE, TRUE, Short, None)
OFast == Opt("fast", "", FALSE, "req", FALSE, FALSE, None, <<"7">>)
OEmpty == [Opt("empty", "e", TRUE, "opt", FALSE, TRUE, None, None) EXCEPT !.vn = "n"]  \* description "" (not None), 1-letter value name

ArgLists == [none |-> <<>>, req |-> <<ASrc>>, nodesc |-> <<ADst>>, reqdfl |-> <<ASrc, AMode>>, dflmul |-> <<AMode, ARest>>,
             three |-> <<ASrc, ADst, ARest>>, nodescdfl |-> <<ALvl>>, long |-> <<AMode>>]
SubArgLists == [none |-> <<>>, req |-> <<AItem>>, nodescdfl |-> <<AExtra>>, reqmul |-> <<AItem, AMore>>, mul |-> <<AMore>>]
OptLists == [none |-> <<>>, flag |-> <<OForce>>, two |-> <<ODry, OOut>>, optmul |-> <<OLevel, OTag>>, nodescdfl |-> <<ORate, OEmpty>>,
             three |-> <<OForce, OOut, OTag>>]
SubOptLists == [none |-> <<>>, flag |-> <<OKeep>>, multi |-> <<OSize, OKeep>>]
GlobLists == [slim |-> <<OHelp>>, conf |-> <<OHelp, OConf>>, nodesc |-> <<OHelp, OVerb>>]

\* required arguments precede optional ones, nothing follows a multi-valued one (ArgsFormatBuilder's rules)
ValidArgs(as) == \A x, y \in 1..Len(as) : x < y => (~as[x].multi /\ (as[y].req => as[x].req))

\* ------------------------------------------------------------------ commands
Cmd(n, rank, aliases, hidden, enabled, dflt, anon, desc, help, args, opts, subs) ==
  [name |-> n, rank |-> rank, aliases |-> aliases, hidden |-> hidden, enabled |-> enabled, dflt |-> dflt, anon |-> anon,
   builtin |-> FALSE, desc |-> desc, help |-> help, args |-> args, opts |-> opts, subs |-> subs]
\* names in sorted order: bar baz foo help qux run
HelpCmd == [Cmd("help", 4, <<>>, FALSE, TRUE, TRUE, FALSE, <<"Display", "the", "manual", "of", "a", "command">>, <<>>,
                <<Arg("command", FALSE, TRUE, TRUE, <<"The", "command", "name">>, None)>>, <<>>, <<>>)
            EXCEPT !.builtin = TRUE]
Sub(n, rank, aliases, hidden, enabled, dflt, anon, desc, help, args, opts) ==
  Cmd(n, rank, aliases, hidden, enabled, dflt, anon, desc, help, args, opts, <<>>)

\* shapes of foo's sub-commands; a and o are the arguments / options given to the first one
Shapes(a, o) ==
  [none |-> <<>>,
   one |-> <<Sub("bar", 1, <<>>, FALSE, TRUE, FALSE, FALSE, Short, <<>>, a, o)>>,
   two |-> <<Sub("baz", 2, <<"bz">>, FALSE, TRUE, FALSE, FALSE, None, HelpText, a, o),
             Sub("bar", 1, <<>>, FALSE, TRUE, FALSE, FALSE, Long, <<>>, <<>>, <<>>)>>,
   dflt |-> <<Sub("bar", 1, <<>>, FALSE, TRUE, TRUE, FALSE, Short, <<>>, a, o),
              Sub("baz", 2, <<>>, FALSE, TRUE, FALSE, FALSE, None, <<>>, <<>>, <<OKeep>>)>>,
   anon |-> <<Sub("run", 6, <<>>, FALSE, TRUE, TRUE, TRUE, Short, <<>>, a, o),
              Sub("baz", 2, <<>>, TRUE, TRUE, FALSE, FALSE, Short, <<>>, <<>>, <<>>)>>,
   hidden |-> <<Sub("bar", 1, <<"br">>, TRUE, TRUE, FALSE, FALSE, Short, <<>>, a, o),
                Sub("baz", 2, <<"bz">>, FALSE, FALSE, FALSE, FALSE, Short, <<>>, <<>>, <<>>)>>,
   hiddendflt |-> <<Sub("bar", 1, <<>>, TRUE, TRUE, TRUE, FALSE, Short, <<>>, a, o),
                    Sub("baz", 2, <<>>, FALSE, TRUE, FALSE, FALSE, Short, <<>>, <<>>, <<>>)>>,
   twodflt |-> <<Sub("bar", 1, <<>>, FALSE, TRUE, TRUE, FALSE, Short, <<>>, a, o),
                 Sub("baz", 2, <<>>, FALSE, TRUE, TRUE, FALSE, Short, <<>>, <<>>, <<>>)>>,
   \* three levels: below bar a hidden command (baz, alias bz), a command named like its parent (bar) and one named
   \* `help`; baz itself disabled
   deep |-> <<[Sub("bar", 1, <<>>, FALSE, TRUE, FALSE, FALSE, Short, <<>>, a, o)
               EXCEPT !.subs = <<Sub("baz", 2, <<"bz">>, TRUE, TRUE, FALSE, FALSE, Short, <<>>, <<>>, <<OThird>>),
                                 Sub("bar", 1, <<>>, FALSE, TRUE, FALSE, FALSE, None, <<>>, <<>>, <<OFast>>),
                                 \* a command literally named `help` below the top level
                                 Sub("help", 3, <<>>, FALSE, TRUE, FALSE, FALSE, Short, <<>>, <<>>, <<OKeepAll>>)>>],
              Sub("baz", 2, <<>>, FALSE, FALSE, FALSE, FALSE, Short, <<>>, <<>>, <<>>)>>]

\* variants of foo itself: [aliases, hidden, description, help]
\*                    ... and how the application joins the words of its descriptions [nl, gw, tnl]
Foos == [plain |-> [al |-> <<>>, hid |-> FALSE, desc |-> Short, help |-> <<>>, nl |-> 0, gw |-> 1, tnl |-> FALSE],
         alias |-> [al |-> <<"fx", "f2">>, hid |-> FALSE, desc |-> Long, help |-> HelpText, nl |-> 2, gw |-> 2, tnl |-> TRUE],
         hidden |-> [al |-> <<"fx">>, hid |-> TRUE, desc |-> None, help |-> <<>>, nl |-> 3, gw |-> 1, tnl |-> TRUE]]

Quxes == [none |-> <<>>,
          plain |-> <<Cmd("qux", 5, <<>>, FALSE, TRUE, FALSE, FALSE, None, <<>>, <<>>, <<>>, <<>>)>>,
          hidden |-> <<Cmd("qux", 5, <<"qx">>, TRUE, TRUE, FALSE, FALSE, Short, <<>>, <<ADst>>, <<>>, <<>>)>>,
          disabled |-> <<Cmd("qux", 5, <<"qx">>, FALSE, FALSE, FALSE, FALSE, Short, <<>>, <<>>, <<>>, <<>>)>>,
          anon |-> <<Cmd("qux", 5, <<>>, FALSE, TRUE, TRUE, TRUE, Short, <<>>, <<>>, <<OKeep>>, <<>>)>>,
          \* leaf names shared with foo's tree: qux bar (another command than foo bar) and qux qux
          twin |-> <<Cmd("qux", 5, <<>>, FALSE, TRUE, FALSE, FALSE, Short, <<>>, <<>>, <<>>,
                         <<Sub("bar", 1, <<"help">>, FALSE, TRUE, FALSE, FALSE, Long, <<>>, <<ADst>>, <<OThird>>),   \* alias `help`
                           Sub("qux", 5, <<>>, FALSE, TRUE, FALSE, FALSE, None, <<>>, <<>>, <<OFast>>)>>)>>]

MkCfg(shape, qux, fa, fo, sa, so, gl, foo) ==
  LET f == Foos[foo]
  IN [app |-> "app", display |-> <<"App">>, ver |-> IF gl = "slim" THEN "1.0" ELSE "",
      help |-> IF qux = "plain" THEN HelpText ELSE <<>>,
      gargs |-> <<>>, nl |-> f.nl, gw |-> f.gw, tnl |-> f.tnl,
      gopts |-> GlobLists[gl],
      cmds |-> <<HelpCmd,
                 Cmd("foo", 3, f.al, f.hid, TRUE, FALSE, FALSE, f.desc, f.help, ArgLists[fa], OptLists[fo],
                     Shapes(SubArgLists[sa], SubOptLists[so])[shape])>>
               \o Quxes[qux]]

\* widths: 40, 80 and, for the page of foo (the one with most labels), the precondition's boundary
WidthOf(c, wm) == IF wm = "w40" THEN 40 ELSE IF wm = "w80" THEN 80
                  ELSE IF wm = "edge" THEN LongestLabel(c, <<2>>) + Margin
                  ELSE LongestLabel(c, <<2>>) + Margin + 3

Init == \E shape \in ShapeSet, qux \in QuxSet, fa \in FooArgSet, fo \in FooOptSet, sa \in SubArgSet, so \in SubOptSet,
           gl \in GlobSet, foo \in FooSet, wm \in WidthSet :
          /\ ValidArgs(ArgLists[fa] \o SubArgLists[sa])
          /\ (shape = "none" => (sa = "none" /\ so = "none"))
          /\ LET c == MkCfg(shape, qux, fa, fo, sa, so, gl, foo) IN Start(c, WidthOf(c, wm))
Spec == Init /\ [][Step]_vars

Emit == pc = "done" => PrintT(ToJson([cfg |-> cfg, T |-> tw, pages |-> pages, reqs |-> reqs]))
=============================================================================
