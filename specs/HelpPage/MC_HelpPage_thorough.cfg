SPECIFICATION Spec
CONSTANTS
  Repaired = TRUE
  ShapeSet = {"none", "one", "two", "dflt", "anon", "hidden", "hiddendflt", "twodflt", "deep"}
  QuxSet = {"none", "hidden", "disabled", "anon", "twin"}
  FooArgSet = {"none", "req", "three", "dflmul", "nodescdfl"}
  FooOptSet = {"none", "two", "optmul", "nodescdfl"}
  SubArgSet = {"none", "reqmul", "nodescdfl"}
  SubOptSet = {"none", "multi"}
  GlobSet = {"slim", "conf"}
  FooSet = {"plain", "alias", "hidden"}
  WidthSet = {"w40"}
INVARIANT TypeOK
INVARIANT InvSucceeds
INVARIANT InvComplete
INVARIANT InvHidden
INVARIANT InvFits
INVARIANT InvRequests
INVARIANT InvPageOf
INVARIANT Emit
