SPECIFICATION Spec
CONSTANTS
  Repaired = FALSE
  ShapeSet = {"one", "dflt", "hiddendflt"}
  QuxSet = {"none"}
  FooArgSet = {"none", "req", "nodesc"}
  FooOptSet = {"none", "nodescdfl"}
  SubArgSet = {"none", "req"}
  SubOptSet = {"none"}
  GlobSet = {"slim"}
  FooSet = {"plain"}
  WidthSet = {"w40"}
INVARIANT TypeOK
INVARIANT InvSucceeds
INVARIANT InvComplete
INVARIANT InvHidden
INVARIANT InvFits
INVARIANT InvRequests
INVARIANT InvPageOf
INVARIANT Emit
