SPECIFICATION Spec
CONSTANTS
  Repaired = TRUE
  ShapeSet = {"none", "one", "two", "dflt", "anon", "hidden", "hiddendflt", "twodflt", "deep"}
  QuxSet = {"none", "plain", "hidden", "disabled", "anon", "twin"}
  FooArgSet = {"req", "dflmul"}
  FooOptSet = {"two", "optmul"}
  SubArgSet = {"none", "mul"}
  SubOptSet = {"flag"}
  GlobSet = {"conf"}
  FooSet = {"plain", "alias", "hidden"}
  WidthSet = {"w80"}
INVARIANT TypeOK
INVARIANT InvSucceeds
INVARIANT InvComplete
INVARIANT InvHidden
INVARIANT InvFits
INVARIANT InvRequests
INVARIANT InvPageOf
INVARIANT Emit
