--------------------------- MODULE HelpPageTrace ---------------------------
(* Recorded renderings and help requests of the real code checked against HelpPage.
   A trace belongs to one application and one terminal width:
     event 1           op = "config":  cfg, T (the driver built the application from cfg)
     op = "page"       p (target path), obs = [kind ("ok"|"exc"), cls, lines] of ApplicationHelp / CommandHelp rendered
                       on a buffered I/O of width T, runA (whether the A-layer is compared as well - DRIFT only);
                       T # 0 on a page event: the same help object rendered once more, on another I/O of that width
     op = "request"    q (path of positions of the command the request names, <<>> = none),
                       a = observation of `help <path>`, b = observation of `<path> --help` (or -h), each on a freshly
                       built application with COLUMNS = T: [kind ("ok" = status 0 | "status" | "exc"), cls, lines]
   Every event carries all fields (neutral values where they do not apply).
   P-clauses are evaluated on the observations only.                                                        *)
EXTENDS HelpPage, TraceKit

VARIABLES tid, l
tvars == <<vars, tid, l>>

Tr == Traces[tid]
Ev == Tr[l]

TInit == /\ tid \in 1..NTraces /\ l = 1
         /\ Start(Traces[tid][1].cfg, Traces[tid][1].T)

StyleTags == {"b", "u", "c1", "c2", "info", "comment", "question", "error"}

\* ---- harness sanity: a page can be read unambiguously - no piece of running text, of a visible name or of a label can
\*      be taken for the name of a hidden / disabled command (the wrapper may cut any of them into pieces)
AllCmds(c) == Below(c.cmds)
Secret(x) == x.hidden \/ ~x.enabled
\* running text, parameter names, fixed words: what can appear on any page
Texts(c) ==
  LET Txt(x) == Els(x.desc) \cup UNION {Els(par) : par \in Els(x.help)}
      AO(x) == UNION {{a.name} \cup Els(a.desc) \cup Els(a.dflt) : a \in Els(x.args)}
               \cup UNION {{o.long, o.vn} \cup Els(o.desc) \cup Els(o.dflt) : o \in Els(x.opts)}
  IN {c.app, c.ver} \cup Els(c.display) \cup UNION {Els(par) : par \in Els(c.help)}
     \cup UNION {{a.name} \cup Els(a.desc) \cup Els(a.dflt) : a \in Els(c.gargs)}
     \cup UNION {{o.long, o.vn} \cup Els(o.desc) \cup Els(o.dflt) : o \in Els(c.gopts)}
     \cup UNION {Txt(x) \cup AO(x) : x \in AllCmds(c)}
     \cup {"aliases:", "version", "(default:", "(multiple", "values", "allowed)", "USAGE", "ARGUMENTS", "COMMANDS",
           "AVAILABLE", "OPTIONS", "GLOBAL", "DESCRIPTION", "command", "arg", "or:", "The", "arguments", "of", "the", "to", "execute"}
\* ... and the command names the page of p may show: its own, those above it, the visible ones below it
\* (leaf names may repeat elsewhere in the tree: `pkg add` hidden, `repo add` visible)
PageNames(c, p) == OnPath(c, p) \cup VisibleBelow(c, p)
HasPiece(w, n) == \E i \in 1..(Len(w) - Len(n) + 1) : SubSeq(w, i, i + Len(n) - 1) = n
WellFormed(c) ==
  \A tn \in 1..Len(Targets(c)) :
     LET p == Targets(c)[tn] IN \A n \in Forbidden(c, p) : \A w \in Texts(c) \cup PageNames(c, p) : ~HasPiece(w, n)

\* ---- keys that tell known defects apart
\* known finding C13-style-tag-name: an argument named like a style tag (<info>, <b>, ...) is taken for one
TaggedPage(c, p) ==
  IF p = <<>> THEN FALSE
  ELSE \E a \in Els(AllArgs(c, p)) \cup UNION {Els(x.args) : x \in Els(Children(c, p))} : a.name \in StyleTags
TagKey(c, p, key) == IF TaggedPage(c, p) THEN (IF key = "" THEN "style-tag-name" ELSE key \o "/style-tag-name") ELSE key
\* ... and then the listing misses exactly those arguments
ArgKey(c, p, L) ==
  LET m == MissingArgs(c, p, L) IN IF m # {} /\ m \subseteq StyleTags THEN "style-tag-name" ELSE ""
HiddenKey(c, p, L) ==
  LET s == Shown(c, p, L)
      hd == {x.name : x \in {y \in Els(Children(c, p)) : y.enabled /\ y.hidden /\ y.dflt /\ ~y.anon}}
  IN IF s # {} /\ s \subseteq hd THEN "hidden-default" ELSE ""

\* the A-layer's page
AMatchesAt(c, p, o, w) ==
  LET r == PageOf(c, p, w)
  IN IF r.ok THEN o.kind = "ok" /\ o.lines = r.lines ELSE o.kind # "ok"
AMatches(c, p, o) == AMatchesAt(c, p, o, tw)

PageClauses(c, e) ==
  LET p == e.p
      L == e.obs.lines
      w == IF e.T = 0 THEN tw ELSE e.T          \* a page rendered at a width of its own (same help object, second I/O)
  IN /\ Check(tid, l, "P.succeeds", TagKey(c, p, e.obs.cls), Pre(c, p, w) => e.obs.kind = "ok")
     /\ IF e.obs.kind # "ok" THEN TRUE
        ELSE /\ Check(tid, l, "P.lists.args", ArgKey(c, p, L), MissingArgs(c, p, L) = {})
             /\ Check(tid, l, "P.lists.opts", "", MissingOpts(c, p, L) = {})
             /\ Check(tid, l, "P.lists.cmds", "", MissingCmds(c, p, L) = {})
             /\ Check(tid, l, "P.hidden", HiddenKey(c, p, L), Shown(c, p, L) = {})
             /\ Check(tid, l, "P.fits", "", Pre(c, p, w) => Fits(L, w))
     /\ IF e.runA THEN Note(tid, l, "A.lines", AMatchesAt(c, p, e.obs, w)) ELSE TRUE

\* the pages a request for (i, j) may show: the named command's, or - when it has default sub-commands - one of theirs
\* (which of them is the resolver's business, property C03)
Admissible(c, q) ==
  IF q = <<>> THEN {<<>>}
  ELSE LET subs == CmdAt(c, q).subs
           ds == {n \in 1..Len(subs) : subs[n].enabled /\ subs[n].dflt}
       IN IF ds = {} THEN {q} ELSE {Append(q, n) : n \in ds}
PageOK(c, p, L) == Complete(c, p, L) /\ Shown(c, p, L) = {} /\ (Pre(c, p, tw) => Fits(L, tw))
Builtin(c, q) == IF q = <<>> THEN FALSE ELSE c.cmds[q[1]].builtin
ReqKey(c, e) ==
  IF Builtin(c, e.q) THEN "builtin-help"
  ELSE IF \E p \in Admissible(c, e.q) : TaggedPage(c, p) THEN "style-tag-name" ELSE ""
ObsKey(o) == IF o.kind = "ok" THEN "" ELSE o.cls

RequestClauses(c, e) ==
  LET adm == Admissible(c, e.q)
      \* (known finding C13-help-help: `help --help` shows the application page - that one has to fit as well then)
      shown == IF Builtin(c, e.q) THEN adm \cup {<<>>} ELSE adm
      pre == \A p \in shown : Pre(c, p, tw)
      Shows(o) == o.kind = "ok" => \E p \in adm : PageOK(c, p, o.lines)
      tagged == \E p \in adm : TaggedPage(c, p)
      cls == ObsKey(IF e.a.kind = "ok" THEN e.b ELSE e.a)
  IN /\ Check(tid, l, "P.request.status", IF tagged THEN cls \o "/style-tag-name" ELSE cls,
              pre => (e.a.kind = "ok" /\ e.b.kind = "ok"))
     /\ Check(tid, l, "P.request.same", ReqKey(c, e), (e.a.kind = "ok" /\ e.b.kind = "ok") => e.a.lines = e.b.lines)
     /\ Check(tid, l, "P.request.page", ReqKey(c, e), Shows(e.a) /\ Shows(e.b))
     /\ IF e.runA
        THEN Note(tid, l, "A.request",
                  IF RequestFails(c, e.q) THEN e.a.kind # "ok" /\ e.b.kind # "ok"
                  ELSE AMatches(c, Resolve(c, e.q).p, e.a))
        ELSE TRUE

TConfig == /\ l = 1 /\ l <= Len(Tr) /\ Ev.op = "config"
           /\ Check(tid, l, "H.config", "", WellFormed(cfg))
           /\ l' = l + 1 /\ UNCHANGED <<vars, tid>>
TPage == /\ l > 1 /\ l <= Len(Tr) /\ Ev.op = "page"
         /\ PageClauses(cfg, Ev)
         /\ l' = l + 1 /\ UNCHANGED <<vars, tid>>
TRequest == /\ l > 1 /\ l <= Len(Tr) /\ Ev.op = "request"
            /\ RequestClauses(cfg, Ev)
            /\ l' = l + 1 /\ UNCHANGED <<vars, tid>>
TDone == /\ l = Len(Tr) + 1 /\ l' = l + 1 /\ UNCHANGED <<vars, tid>> /\ Accept(tid)

TNext == TConfig \/ TPage \/ TRequest \/ TDone
TSpec == TInit /\ [][TNext]_tvars
=============================================================================
