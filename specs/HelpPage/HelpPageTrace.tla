--------------------------- MODULE HelpPageTrace ---------------------------
(* Recorded renderings and help requests of the real code checked against HelpPage.
   A trace belongs to one application and one terminal width:
     event 1           op = "config":  cfg, T (the driver built the application from cfg)
     op = "page"       p (target path), obs = [kind ("ok"|"exc"), cls, lines] of ApplicationHelp / CommandHelp rendered
                       on a buffered I/O of width T, runA (whether the A-layer is compared as well - DRIFT only)
     op = "request"    i, j (positions of the command / sub-command the request names, 0 = none),
                       a = observation of `help <path>`, b = observation of `<path> --help` (or -h), each on a freshly
                       built application with COLUMNS = T: [kind ("ok" = status 0 | "status" | "exc"), cls, lines]
   Every event carries all fields (neutral values where they do not apply).
   P-clauses are evaluated on the observations only.                                                        *)
EXTENDS HelpPage, TraceKit

VARIABLES tid, l
tvars == <<vars, tid, l>>

Tr == Traces[tid]
Ev == Tr[l]

TInit == /\ tid \in 1..NTraces /\ l = 1
         /\ Start(Traces[tid][1].cfg, Traces[tid][1].T)

StyleTags == {"b", "u", "c1", "c2", "info", "comment", "question", "error"}

\* ---- harness sanity: the page can be read unambiguously (running text never contains the name of a hidden command)
AllCmds(c) == Els(c.cmds) \cup UNION {Els(x.subs) : x \in Els(c.cmds)}
TextWords(c) ==
  LET Txt(x) == Els(x.desc) \cup UNION {Els(par) : par \in Els(x.help)}
      AO(x) == UNION {Els(a.desc) \cup Els(a.dflt) : a \in Els(x.args)} \cup UNION {Els(o.desc) \cup Els(o.dflt) : o \in Els(x.opts)}
  IN Els(c.display) \cup UNION {Els(par) : par \in Els(c.help)}
     \cup UNION {Els(o.desc) \cup Els(o.dflt) : o \in Els(c.gopts)}
     \cup UNION {Txt(x) \cup AO(x) : x \in AllCmds(c)}
\* names that must never show up (hidden / disabled commands, with their aliases), as Mentions reads them
Hideable(c) ==
  LET names == UNION {{x.name} \cup Els(x.aliases) : x \in {y \in AllCmds(c) : y.hidden \/ ~y.enabled}}
  IN names \cup {"[" \o n \o "]" : n \in names} \cup {n \o "," : n \in names}
WellFormed(c) == (TextWords(c) \cup {c.app}) \cap Hideable(c) = {}

\* ---- keys that tell known defects apart
ArgKey(c, p, L) ==
  LET m == MissingArgs(c, p, L) IN IF m # {} /\ m \subseteq StyleTags THEN "style-tag-name" ELSE ""
HiddenKey(c, p, L) ==
  LET s == Shown(c, p, L)
      hd == {x.name : x \in {y \in Els(Children(c, p)) : y.enabled /\ y.hidden /\ y.dflt /\ ~y.anon}}
  IN IF s # {} /\ s \subseteq hd THEN "hidden-default" ELSE ""

\* the A-layer's page
AMatches(c, p, o) ==
  LET r == PageOf(c, p, tw)
  IN IF r.ok THEN o.kind = "ok" /\ o.lines = r.lines ELSE o.kind # "ok"

PageClauses(c, e) ==
  LET p == e.p
      L == e.obs.lines
  IN /\ Check(tid, l, "P.succeeds", e.obs.cls, Pre(c, p, tw) => e.obs.kind = "ok")
     /\ IF e.obs.kind # "ok" THEN TRUE
        ELSE /\ Check(tid, l, "P.lists.args", ArgKey(c, p, L), MissingArgs(c, p, L) = {})
             /\ Check(tid, l, "P.lists.opts", "", MissingOpts(c, p, L) = {})
             /\ Check(tid, l, "P.lists.cmds", "", MissingCmds(c, p, L) = {})
             /\ Check(tid, l, "P.hidden", HiddenKey(c, p, L), Shown(c, p, L) = {})
             /\ Check(tid, l, "P.fits", "", Pre(c, p, tw) => Fits(L, tw))
     /\ IF e.runA THEN Note(tid, l, "A.lines", AMatches(c, p, e.obs)) ELSE TRUE

\* the pages a request for (i, j) may show: the named command's, or - when it has default sub-commands - one of theirs
\* (which of them is the resolver's business, property C03)
Admissible(c, i, j) ==
  IF i = 0 THEN {<<>>}
  ELSE IF j > 0 THEN {<<i, j>>}
  ELSE LET ds == {n \in 1..Len(c.cmds[i].subs) : c.cmds[i].subs[n].enabled /\ c.cmds[i].subs[n].dflt}
       IN IF ds = {} THEN {<<i>>} ELSE {<<i, n>> : n \in ds}
PageOK(c, p, L) == Complete(c, p, L) /\ Shown(c, p, L) = {} /\ (Pre(c, p, tw) => Fits(L, tw))
ReqKey(c, e) == IF e.i > 0 THEN (IF c.cmds[e.i].builtin THEN "builtin-help" ELSE "") ELSE ""
ObsKey(o) == IF o.kind = "ok" THEN "" ELSE o.cls

RequestClauses(c, e) ==
  LET adm == Admissible(c, e.i, e.j)
      pre == \A p \in adm : Pre(c, p, tw)
      Shows(o) == o.kind = "ok" => \E p \in adm : PageOK(c, p, o.lines)
  IN /\ Check(tid, l, "P.request.status", ObsKey(IF e.a.kind = "ok" THEN e.b ELSE e.a),
              pre => (e.a.kind = "ok" /\ e.b.kind = "ok"))
     /\ Check(tid, l, "P.request.same", ReqKey(c, e), (e.a.kind = "ok" /\ e.b.kind = "ok") => e.a.lines = e.b.lines)
     /\ Check(tid, l, "P.request.page", ReqKey(c, e), Shows(e.a) /\ Shows(e.b))
     /\ IF e.runA
        THEN Note(tid, l, "A.request",
                  IF RequestFails(c, e.i, e.j) THEN e.a.kind # "ok" /\ e.b.kind # "ok"
                  ELSE AMatches(c, Resolve(c, e.i, e.j).p, e.a))
        ELSE TRUE

TConfig == /\ l = 1 /\ l <= Len(Tr) /\ Ev.op = "config"
           /\ Check(tid, l, "H.config", "", WellFormed(cfg))
           /\ l' = l + 1 /\ UNCHANGED <<vars, tid>>
TPage == /\ l > 1 /\ l <= Len(Tr) /\ Ev.op = "page"
         /\ PageClauses(cfg, Ev)
         /\ l' = l + 1 /\ UNCHANGED <<vars, tid>>
TRequest == /\ l > 1 /\ l <= Len(Tr) /\ Ev.op = "request"
            /\ RequestClauses(cfg, Ev)
            /\ l' = l + 1 /\ UNCHANGED <<vars, tid>>
TDone == /\ l = Len(Tr) + 1 /\ l' = l + 1 /\ UNCHANGED <<vars, tid>> /\ Accept(tid)

TNext == TConfig \/ TPage \/ TRequest \/ TDone
TSpec == TInit /\ [][TNext]_tvars
=============================================================================
