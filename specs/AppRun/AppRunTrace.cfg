SPECIFICATION TSpec
