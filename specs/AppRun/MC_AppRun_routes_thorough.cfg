SPECIFICATION Spec
CONSTANTS
  Apps <- AllApps
  Catching <- Both
  Verbs <- Verbs2
  MCLines <- LinesOne
  Pres <- PresNone
  MaxListeners = 0
  ListenerKinds <- NoKinds
  ListenerValues <- NoValues
  OutValues <- ValuesRoutes
  OutKinds <- KindsRoutes
  MCScopes <- ScopesTwo
  MCRoutes <- RoutesSix
  MCExits <- Both
  MCIos <- IoBoth
  Emitting = TRUE
INVARIANT PContained
INVARIANT PZeroIff
INVARIANT PClamped
INVARIANT PReported
INVARIANT PInterrupt
INVARIANT PCalls
INVARIANT FoldAgrees
INVARIANT AtMostOneCall
INVARIANT Emit
PROPERTY Terminates
