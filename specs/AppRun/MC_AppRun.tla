----------------------------- MODULE MC_AppRun -----------------------------
(* Model-checking harness for AppRun: one initial state per environment of the configured product, the pipeline runs
   step by step, the P-clauses are invariants of the final states, Terminates is checked under weak fairness.  With
   Emitting = TRUE the final state of every behaviour is printed ([env, obs]) and replayed on the real application.  *)
EXTENDS AppRun, Json, TLC

CONSTANTS Apps, Catching, Verbs, MCLines, Pres, MaxListeners, ListenerKinds, ListenerValues, OutValues, OutKinds, MCScopes, MCRoutes, MCExits, MCIos, Emitting

VARIABLE st

AllApps == {"plain", "default"}
Both == {TRUE, FALSE}
OnlyTrue == {TRUE}
Verbs4 == 0..3
Verbs2 == {0, 3}
Verbs1 == {0}
LinesOK == {"alpha_x", "alpha_x_flag", "beta", "beta_gamma_y", "beta_gamma_y_num", "empty"}
LinesTwo == {"alpha_x_flag", "beta_gamma_y_num"}
LinesOne == {"alpha_x"}
LinesAll == Lines
LinesEight == {"alpha_x", "alpha_x_flag", "beta", "beta_gamma_y", "beta_gamma_y_num", "alpha_missing", "nosuch", "empty"}
PresAll == {"none", "pass", "raise"}
PresNone == {"none"}
KindsAll == Kinds
KindsFew == {"Foreign", "LibraryTagged", "KeyboardInterrupt"}
KindsOne == {"Foreign"}
ValuesAll == Values
ValuesFew == {"None", "s3", "abc"}
ValuesL == {"0", "s3", "300"}
ValuesOne == {"s3"}
PresTwo == {"none", "raise"}
NoKinds == {}
NoValues == {}

RoutesAll == {"object", "factory", "method"}
IoOk == {"ok"}
IoBoth == {"ok", "fail"}
RoutesOne == {"object"}
RoutesSix == {"object", "factory", "method", "callback2", "callback3", "callbackv", "factory_fn", "factory_class", "factory_method",
              "factory_partial", "factory_callable"}
ValuesRoutes == {"None", "s3", "abc"}
KindsRoutes == {"Foreign", "TypeError", "TypeErrorOnce", "KeyboardInterrupt", "LibraryTagged"}
ExitsNo == {FALSE}
ListenerSet == {[b |-> "pass", v |-> "", k |-> ""], [b |-> "noise", v |-> "", k |-> ""]}
               \cup {[b |-> "handle", v |-> v, k |-> ""] : v \in ListenerValues}
               \cup {[b |-> "raise", v |-> "", k |-> k] : k \in ListenerKinds}
ListenerSeqs == UNION {[1..n -> ListenerSet] : n \in 0..MaxListeners}
Outcomes == {[t |-> "ret", v |-> v, k |-> ""] : v \in OutValues} \cup {[t |-> "raise", v |-> "", k |-> k] : k \in OutKinds}

ScopesAll == Scopes
ScopesTwo == {"top", "indent"}
ScopesTop == {"top"}
\* one initial state per environment of the product (nested quantifiers: the product itself is never built as a set)
Init == \E a \in Apps, c \in Catching, v \in Verbs, ln \in MCLines, p \in Pres, ls \in ListenerSeqs, o \in Outcomes, sc \in MCScopes,
             hr \in MCRoutes, ex \in MCExits, iof \in MCIos :
          /\ ~(ln \in {"nosuch", "empty"} /\ a = "default")
          /\ ~(iof = "fail" /\ a = "default")                      \* (only the plain application's factory is ours to break)
          /\ st = Start([app |-> a, catch |-> c, verb |-> v, line |-> ln, pre |-> p, listeners |-> ls, outcome |-> o, scope |-> sc,
                        hroute |-> hr, exit |-> ex, io |-> iof])
CreateIO == st.phase = "start" /\ st' = Step(st)
PreResolve == st.phase = "ioReady" /\ st' = Step(st)
Resolve == st.phase = "preResolved" /\ st' = Step(st)
PreHandle == st.phase = "resolved" /\ st.li <= Len(st.env.listeners) /\ st' = Step(st)
PreHandleEnd == st.phase = "resolved" /\ st.li > Len(st.env.listeners) /\ st' = Step(st)
InvokeHandler == st.phase = "preHandled" /\ st' = Step(st)
Normalise == st.phase = "handled" /\ st' = Step(st)
Catch == st.phase = "caught" /\ st' = Step(st)
Report == st.phase = "reported" /\ st' = Step(st)
Return == st.phase = "returning" /\ st' = Step(st)
Next == CreateIO \/ PreResolve \/ Resolve \/ PreHandle \/ PreHandleEnd \/ InvokeHandler \/ Normalise \/ Catch \/ Report \/ Return
Spec == Init /\ [][Next]_st /\ WF_st(Next)

Done == st.phase \in Final
O == ObsOf(st)
PContained == Done => Contained(st.env, O)
PZeroIff == Done => ZeroIff(st.env, O)
PClamped == Done => Clamped(st.env, O)
PReported == Done => Reported(st.env, O)
PInterrupt == Done => Interrupt(st.env, O)
PCalls == Done => CallsOK(st.env, O)
\* the step machine and the closed form used by the trace module agree
FoldAgrees == Done => Outcome(st.env) = st
AtMostOneCall == Len(st.calls) <= 1
Terminates == <>Done
Emit == (Done /\ Emitting) => PrintT(ToJson([env |-> st.env, obs |-> [status |-> st.status, escaped |-> st.escaped, calls |-> st.calls,
                                                                    reported |-> st.reported \/ st.noisy, simple |-> st.simple]]))
=============================================================================
