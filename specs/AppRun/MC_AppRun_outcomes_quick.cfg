SPECIFICATION Spec
CONSTANTS
  Apps <- AllApps
  Catching <- OnlyTrue
  Verbs <- Verbs1
  MCLines <- LinesOne
  Pres <- PresNone
  MaxListeners = 0
  ListenerKinds <- NoKinds
  ListenerValues <- NoValues
  OutValues <- ValuesAll
  OutKinds <- KindsAll
  MCScopes <- ScopesTwo
  MCRoutes <- RoutesAll
  MCExits <- ExitsNo
  MCIos <- IoOk
  Emitting = TRUE
INVARIANT PContained
INVARIANT PZeroIff
INVARIANT PClamped
INVARIANT PReported
INVARIANT PInterrupt
INVARIANT PCalls
INVARIANT FoldAgrees
INVARIANT AtMostOneCall
INVARIANT Emit
PROPERTY Terminates
