SPECIFICATION Spec
CONSTANTS
  Apps <- AllApps
  Catching <- OnlyTrue
  Verbs <- Verbs1
  MCLines <- LinesAll
  Pres <- PresAll
  MaxListeners = 1
  ListenerKinds <- KindsOne
  ListenerValues <- ValuesOne
  OutValues <- ValuesFew
  OutKinds <- KindsOne
  MCScopes <- ScopesTop
  MCRoutes <- RoutesOne
  MCExits <- ExitsNo
  MCIos <- IoOk
  Emitting = TRUE
INVARIANT PContained
INVARIANT PZeroIff
INVARIANT PClamped
INVARIANT PReported
INVARIANT PInterrupt
INVARIANT PCalls
INVARIANT FoldAgrees
INVARIANT AtMostOneCall
INVARIANT Emit
PROPERTY Terminates
