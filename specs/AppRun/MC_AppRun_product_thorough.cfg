SPECIFICATION Spec
CONSTANTS
  Apps <- AllApps
  Catching <- Both
  Verbs <- Verbs2
  MCLines <- LinesEight
  Pres <- PresAll
  MaxListeners = 2
  ListenerKinds <- KindsFew
  ListenerValues <- ValuesL
  OutValues <- ValuesAll
  OutKinds <- KindsAll
  MCScopes <- ScopesTwo
  MCRoutes <- RoutesOne
  MCExits <- ExitsNo
  MCIos <- IoBoth
  Emitting = FALSE
INVARIANT PContained
INVARIANT PZeroIff
INVARIANT PClamped
INVARIANT PReported
INVARIANT PInterrupt
INVARIANT PCalls
INVARIANT FoldAgrees
INVARIANT AtMostOneCall
INVARIANT Emit
PROPERTY Terminates
