------------------------------- MODULE AppRun -------------------------------
(* ConsoleApplication.run / Command.handle  (property C04): the run pipeline as a step machine.

   One behaviour = one run.  The environment is fixed in the initial state:
     env = [app       "plain" (ApplicationConfig + DefaultResolver, as tests/test_console_aplication.py) | "default"
                      (DefaultApplicationConfig),
            catch     exception catching enabled,
            verb      0..3  (normal, -v, -vv, -vvv),
            line      the command line (see Lines: which command it selects, with which arguments / options, or that
                      resolution fails),
            io        "ok" | "fail": the application's I/O factory raises (the report then goes to the preliminary I/O the
                      application created for itself - the console),
            pre       pre-resolve listener: "none" | "pass" | "raise",
            listeners Seq of pre-handle listeners, each [b |-> "pass"] | [b |-> "handle", v |-> value] | [b |-> "raise", k |-> kind],
            outcome   of the selected command's handler: [t |-> "ret", v |-> value] | [t |-> "raise", k |-> kind],
            scope     where in the handler the value is returned / the exception raised: "top" | "indent" (inside
                      `with io.indent(2):`) | "increment" (`with io.increment_indent(2):`) | "output" (`with
                      io.output.indent(2):`) - an indentation scope must not change what the run amounts to,
            hroute    how the handler is configured: "object" | "factory" (a callable returning it: a lambda; factory_fn /
                      factory_class / factory_method / factory_partial / factory_callable: a function, the class itself, a
                      bound method, a functools.partial, an object with __call__) | "method" (another
                      handler_method name) | "callback2" / "callback3" / "callbackv" (CallbackHandler around a function of
                      two / three / any number of parameters);  exit: terminate_after_run - the status then arrives as sys.exit(status).
                      Neither may change what the run amounts to]
   A listener may also be [b |-> "noise"]: it writes to the I/O (leaving a style tag open) and raises the verbosity, and
   otherwise passes.
   Values and exception kinds are names; what the model needs to know about them is in the tables below.

   P-layer (from the statement; over env and the observation o = [status, escaped, calls, reported, shows] only):
     Contained    catching enabled  =>  nothing escapes and the status is an integer in 0..255
     ZeroIff      status = 0 exactly when the effective result is a false-y value (the handler's, or the status of a
                  pre-handle listener that handled) and nothing was raised
     Clamped      a truth-y result that is a status gives int(result) clamped into 1..255
     Reported     every Exception (also a failed resolution, also a result that is no status) gives a non-zero status
                  and a printed report that shows the exception's message
     Interrupt    KeyboardInterrupt gives status 1 (a report is not required)
     CallsOK      the selected command's handler is invoked exactly once with the arguments parsed for it and no
                  other handler runs; no handler at all when resolution failed or a listener handled or raised
   The first five are claimed for catching enabled (the statement's scope), CallsOK always.
   A-layer: the code's steps CreateIO, PreResolve, Resolve, PreHandle (one listener per step, all listeners run, the
   last one that handles wins, one that raises ends the dispatch), InvokeHandler, Normalise, Catch, Report, Return.   *)
EXTENDS Integers, Sequences

\* ------------------------------------------------------------------ tables: values
\* dec27 = Decimal("2.7"), dec0 = Decimal(0), b3 = b"3", bempty = b"", big = 2**70, intlike7 = an object whose __int__ gives 7,
\* falsy9 = an object whose __bool__ is False (and whose __int__ would give 9), negzero = -0.0, babc = b"abc"
Values == {"None", "False", "0", "0.0", "empty_str", "empty_list", "True", "-5", "1", "255", "300", "s3", "s0", "0.5",
           "abc", "nan", "inf", "list", "dec27", "dec0", "b3", "bempty", "big", "intlike7", "falsy9", "negzero", "babc"}
Falsy(v) == v \in {"None", "False", "0", "0.0", "empty_str", "empty_list", "dec0", "bempty", "falsy9", "negzero"}
NotStatus(v) == v \in {"abc", "nan", "inf", "list", "babc"}      \* int(v) fails: counts as a failure of the handler
IntOf(v) == CASE v = "True" -> 1 [] v = "-5" -> -5 [] v = "1" -> 1 [] v = "255" -> 255 [] v = "300" -> 300
              [] v = "s3" -> 3 [] v = "s0" -> 0 [] v = "0.5" -> 0 [] v = "dec27" -> 2 [] v = "b3" -> 3
              [] v = "big" -> 1000000 [] v = "intlike7" -> 7 [] OTHER -> 0
Clamp(n) == IF n < 1 THEN 1 ELSE IF n > 255 THEN 255 ELSE n
ConvClass(v) == CASE v = "inf" -> "OverflowError" [] v = "list" -> "TypeError" [] OTHER -> "ValueError"

\* ------------------------------------------------------------------ tables: exception kinds
\* Code*: exceptions carrying a `code` attribute that is no exit status: a method, None, a string, a float, an integer
\* out of range.  NotPython / Undecodable: raised by code compiled under the name of an existing file that is a template /
\* binary.  Sol*: the exception brings a crashtest solution (plain; description None; title None).  LongContext: the last
\* AngleText: the message holds angle-bracket text that is no style (List<int>, <module>) - it must be shown.
\* TypeError / TypeErrorOnce: a TypeError raised by the handler's own body (Once: it would succeed if it were invoked again
\* in the same run - it must not be).  LongContext: the last
\* of 1500 exceptions linked through __context__; CircularContext: its context chain is a circle.  TagFile: raised by code compiled under the file name "</error>".  TagCloseOpen / LibraryCloseOpen: the message closes a tag it did not open and leaves another one open.
CodeKinds == {"WithCode", "CodeMethod", "CodeNone", "CodeString", "CodeFloat", "CodeBig"}
Kinds == {"Foreign", "Library", "KeyboardInterrupt", "Chained", "TagOpen", "TagClose", "TagUnbalanced", "TagCloseOpen",
          "MultiLine", "NonAscii", "Backslash", "NoSource", "StrFails", "LibraryTagged", "LibraryBackslash",
          "LibraryCloseOpen", "TagFile", "NotPython", "Undecodable", "SolPlain", "SolNoDesc", "SolNoTitle",
          "LongContext", "CircularContext", "TypeError", "TypeErrorOnce", "AngleText"} \cup CodeKinds
Scopes == {"top", "indent", "increment", "output"}
IsInterrupt(k) == k = "KeyboardInterrupt"
IsLibrary(k) == k \in {"Library", "LibraryTagged", "LibraryBackslash", "LibraryCloseOpen"}          \* CliKitException subclasses: simple report
ClassOf(k) == CASE k = "KeyboardInterrupt" -> "KeyboardInterrupt" [] IsLibrary(k) -> "GenLibraryError"
                [] k \in CodeKinds -> "WithCodeError" [] k = "StrFails" -> "StrFailsError"
                [] k \in {"NoSource", "TagFile", "NotPython", "Undecodable"} -> "ValueError"
                [] k \in {"SolPlain", "SolNoDesc", "SolNoTitle"} -> "SolutionError"
                [] k \in {"TypeError", "TypeErrorOnce"} -> "TypeError" [] OTHER -> "RuntimeError"

\* ------------------------------------------------------------------ tables: command lines
\* alpha <a> [--flag]   |   beta [--num N]  with sub-command  beta gamma <c>  (inherits --num)
\* "empty": no token at all - the plain application's default command `delta` runs
\* alpha_beta / alpha_help / gamma_alpha: the argument's VALUE spells the name of another command (a sibling, the built-in
\* help command, the parent's sibling) - it is a value all the same
Lines == {"alpha_x", "alpha_x_flag", "beta", "beta_gamma_y", "beta_gamma_y_num", "alpha_missing", "nosuch", "empty",
          "alpha_beta", "alpha_help", "gamma_alpha"}
Pair(n, v) == <<n, v>>
LineInfo(l) ==
  CASE l = "alpha_x"          -> [ok |-> TRUE, cmd |-> "alpha", args |-> <<Pair("a", "x")>>, opts |-> <<Pair("flag", "False")>>]
    [] l = "alpha_x_flag"     -> [ok |-> TRUE, cmd |-> "alpha", args |-> <<Pair("a", "x")>>, opts |-> <<Pair("flag", "True")>>]
    [] l = "beta"             -> [ok |-> TRUE, cmd |-> "beta", args |-> <<>>, opts |-> <<Pair("num", "None")>>]
    [] l = "beta_gamma_y"     -> [ok |-> TRUE, cmd |-> "beta gamma", args |-> <<Pair("c", "y")>>, opts |-> <<Pair("num", "None")>>]
    [] l = "beta_gamma_y_num" -> [ok |-> TRUE, cmd |-> "beta gamma", args |-> <<Pair("c", "y")>>, opts |-> <<Pair("num", "7")>>]
    [] l = "alpha_beta"       -> [ok |-> TRUE, cmd |-> "alpha", args |-> <<Pair("a", "beta")>>, opts |-> <<Pair("flag", "False")>>]
    [] l = "alpha_help"       -> [ok |-> TRUE, cmd |-> "alpha", args |-> <<Pair("a", "help")>>, opts |-> <<Pair("flag", "False")>>]
    [] l = "gamma_alpha"      -> [ok |-> TRUE, cmd |-> "beta gamma", args |-> <<Pair("c", "alpha")>>, opts |-> <<Pair("num", "None")>>]
    [] l = "empty"            -> [ok |-> TRUE, cmd |-> "delta", args |-> <<>>, opts |-> <<>>]
    [] OTHER                  -> [ok |-> FALSE, cmd |-> "", args |-> <<>>, opts |-> <<>>]    \* required argument missing / unknown command
LineOK(env) == LineInfo(env.line).ok /\ ~(env.line \in {"nosuch", "empty"} /\ env.app = "default")   \* (never combined: the default app has a default command)
ExpectedCall(env) == [cmd |-> LineInfo(env.line).cmd, args |-> LineInfo(env.line).args, opts |-> LineInfo(env.line).opts]

Ret(v) == [t |-> "ret", v |-> v, k |-> "", src |-> ""]
Raise(k, src) == [t |-> "raise", v |-> "", k |-> k, src |-> src]

\* ------------------------------------------------------------------ P-layer
\* what the run amounts to, read off the environment: the first thing that raises, else the last listener that handled,
\* else the handler.  src says whose exception / result it is.
Raisers(env) == {i \in 1..Len(env.listeners) : env.listeners[i].b = "raise"}
Handlers(env) == {i \in 1..Len(env.listeners) : env.listeners[i].b = "handle"}
MinOf(S) == CHOOSE x \in S : \A y \in S : x <= y
MaxOf(S) == CHOOSE x \in S : \A y \in S : x >= y
ListenerSrc(i) == IF i = 1 THEN "l1" ELSE IF i = 2 THEN "l2" ELSE "l3"
Eff(env) ==
  IF env.io = "fail" THEN Raise("Foreign", "io")
  ELSE IF env.pre = "raise" THEN Raise("Foreign", "pre")
  ELSE IF ~LineOK(env) THEN Raise("Library", "resolve")
  ELSE IF Raisers(env) # {} THEN Raise(env.listeners[MinOf(Raisers(env))].k, ListenerSrc(MinOf(Raisers(env))))
  ELSE IF Handlers(env) # {} THEN [Ret(env.listeners[MaxOf(Handlers(env))].v) EXCEPT !.src = "listener"]
  ELSE IF env.outcome.t = "ret" THEN [Ret(env.outcome.v) EXCEPT !.src = "handler"]
  ELSE Raise(env.outcome.k, "handler")
HandlerRuns(env) == env.io # "fail" /\ env.pre # "raise" /\ LineOK(env) /\ Raisers(env) = {} /\ Handlers(env) = {}
\* the effective outcome is an Exception (as opposed to KeyboardInterrupt): raised, or a result that is no status
Fails(env) == LET e == Eff(env) IN (e.t = "raise" /\ ~IsInterrupt(e.k)) \/ (e.t = "ret" /\ ~Falsy(e.v) /\ NotStatus(e.v))

Contained(env, o) == env.catch => (o.escaped = "" /\ o.status \in 0..255)
ZeroIff(env, o) == (env.catch /\ o.escaped = "") => ((o.status = 0) <=> (Eff(env).t = "ret" /\ Falsy(Eff(env).v)))
Clamped(env, o) == (env.catch /\ o.escaped = "" /\ Eff(env).t = "ret" /\ ~Falsy(Eff(env).v) /\ ~NotStatus(Eff(env).v))
                     => o.status = Clamp(IntOf(Eff(env).v))
\* o.reported: something was printed; o.shows: the printed text shows the message of the exception named by Eff(env).src
\* (decided in AppRunTrace with ErrorReport!MessageShown; TRUE where the message is not known to the environment)
Reported(env, o) == (env.catch /\ o.escaped = "" /\ Fails(env)) => (o.status # 0 /\ o.reported /\ o.shows)
Interrupt(env, o) == (env.catch /\ Eff(env).t = "raise" /\ IsInterrupt(Eff(env).k)) => (o.escaped = "" /\ o.status = 1)
CallsOK(env, o) == o.calls = IF HandlerRuns(env) THEN <<ExpectedCall(env)>> ELSE <<>>

\* ------------------------------------------------------------------ A-layer: one step of the pipeline
Phases == {"start", "ioReady", "preResolved", "resolved", "preHandled", "handled", "caught", "reported", "returning",
           "done", "escaped"}
Final == {"done", "escaped"}
NoExc == [k |-> "", cls |-> "", lib |-> FALSE, src |-> ""]
Exc(k, src) == [k |-> k, cls |-> ClassOf(k), lib |-> IsLibrary(k), src |-> src]

Start(env) == [env |-> env, phase |-> "start", li |-> 1, handled |-> FALSE, hstatus |-> "None", ret |-> "None",
               exc |-> NoExc, calls |-> <<>>, status |-> -1, escaped |-> "", reported |-> FALSE, simple |-> FALSE,
               noisy |-> FALSE]                              \* noisy: a listener wrote to the I/O itself

Step(st) ==
  LET env == st.env IN
  CASE st.phase = "start" ->                                                                           \* CreateIO
         IF env.io = "fail" THEN [st EXCEPT !.phase = "caught", !.exc = Exc("Foreign", "io")]      \* reported on the preliminary I/O
         ELSE [st EXCEPT !.phase = "ioReady"]
    [] st.phase = "ioReady" ->                                                                         \* PreResolve
         IF env.pre = "raise" THEN [st EXCEPT !.phase = "caught", !.exc = Exc("Foreign", "pre")]
         ELSE [st EXCEPT !.phase = "preResolved"]
    [] st.phase = "preResolved" ->                                                                     \* Resolve
         IF LineOK(env) THEN [st EXCEPT !.phase = "resolved"]
         ELSE [st EXCEPT !.phase = "caught", !.exc = [k |-> "Library", cls |-> IF env.line = "nosuch" THEN "CannotResolveCommandException" ELSE "CannotParseArgsException",
                               lib |-> TRUE, src |-> "resolve"]]
    [] st.phase = "resolved" ->                                                                        \* PreHandle (one listener)
         IF st.li > Len(env.listeners) THEN [st EXCEPT !.phase = "preHandled"]
         ELSE LET ls == env.listeners[st.li] IN
              IF ls.b = "raise" THEN [st EXCEPT !.phase = "caught", !.exc = Exc(ls.k, ListenerSrc(st.li))]
              ELSE IF ls.b = "handle" THEN [st EXCEPT !.li = @ + 1, !.handled = TRUE, !.hstatus = ls.v]
              ELSE IF ls.b = "noise" THEN [st EXCEPT !.li = @ + 1, !.noisy = TRUE]
              ELSE [st EXCEPT !.li = @ + 1]
    [] st.phase = "preHandled" ->                                                                      \* InvokeHandler
         IF st.handled THEN [st EXCEPT !.phase = "handled", !.ret = st.hstatus]
         ELSE LET called == [st EXCEPT !.calls = Append(@, ExpectedCall(env))] IN
              IF env.outcome.t = "ret" THEN [called EXCEPT !.phase = "handled", !.ret = env.outcome.v]
              ELSE [called EXCEPT !.phase = "caught", !.exc = Exc(env.outcome.k, "handler")]
    [] st.phase = "handled" ->                                                                         \* Normalise
         IF Falsy(st.ret) THEN [st EXCEPT !.phase = "returning", !.status = 0]
         ELSE IF NotStatus(st.ret) THEN
           [st EXCEPT !.phase = "caught", !.exc = [k |-> "Conv", cls |-> ConvClass(st.ret), lib |-> FALSE, src |-> "conv"]]
         ELSE [st EXCEPT !.phase = "returning", !.status = Clamp(IntOf(st.ret))]
    [] st.phase = "caught" ->                                                                          \* Catch
         IF IsInterrupt(st.exc.k) THEN [st EXCEPT !.phase = "returning", !.status = 1]
         ELSE IF ~env.catch THEN [st EXCEPT !.phase = "escaped", !.escaped = st.exc.cls]
         ELSE [st EXCEPT !.phase = "reported", !.reported = TRUE, !.simple = st.exc.lib]             \* Report
    [] st.phase = "reported" -> [st EXCEPT !.phase = "returning", !.status = 1]                        \* exception_to_exit_code
    [] st.phase = "returning" -> [st EXCEPT !.phase = "done"]                                          \* Return
    [] OTHER -> st

RECURSIVE RunFrom(_, _)
RunFrom(st, n) == IF st.phase \in Final \/ n = 0 THEN st ELSE RunFrom(Step(st), n - 1)
Outcome(env) == RunFrom(Start(env), 40)
ObsOf(st) == [status |-> st.status, escaped |-> st.escaped, calls |-> st.calls, reported |-> st.reported, shows |-> TRUE]
=============================================================================
