SPECIFICATION Spec
CONSTANTS
  Apps <- AllApps
  Catching <- Both
  Verbs <- Verbs2
  MCLines <- LinesTwo
  Pres <- PresNone
  MaxListeners = 2
  ListenerKinds <- KindsFew
  ListenerValues <- ValuesL
  OutValues <- ValuesFew
  OutKinds <- KindsFew
  MCScopes <- ScopesTop
  MCRoutes <- RoutesOne
  MCExits <- ExitsNo
  MCIos <- IoOk
  Emitting = TRUE
INVARIANT PContained
INVARIANT PZeroIff
INVARIANT PClamped
INVARIANT PReported
INVARIANT PInterrupt
INVARIANT PCalls
INVARIANT FoldAgrees
INVARIANT AtMostOneCall
INVARIANT Emit
PROPERTY Terminates
