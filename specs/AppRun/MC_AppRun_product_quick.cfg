SPECIFICATION Spec
CONSTANTS
  Apps <- AllApps
  Catching <- Both
  Verbs <- Verbs1
  MCLines <- LinesEight
  Pres <- PresTwo
  MaxListeners = 1
  ListenerKinds <- KindsFew
  ListenerValues <- ValuesL
  OutValues <- ValuesAll
  OutKinds <- KindsAll
  MCScopes <- ScopesTwo
  MCRoutes <- RoutesOne
  MCExits <- ExitsNo
  MCIos <- IoOk
  Emitting = FALSE
INVARIANT PContained
INVARIANT PZeroIff
INVARIANT PClamped
INVARIANT PReported
INVARIANT PInterrupt
INVARIANT PCalls
INVARIANT FoldAgrees
INVARIANT AtMostOneCall
INVARIANT Emit
PROPERTY Terminates
