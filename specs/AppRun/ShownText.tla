----------------------------- MODULE ShownText -----------------------------
(* "The printed text shows the message, style markup aside": the operators of specs/ErrorReport/ErrorReport.tla
   (property C20) that AppRunTrace needs, copied because the module search path holds specs/common only.
   MatchAside(out, msg): out is msg from which some style tags "<name>", "</name>", "</>" (name: a known style or fg=/bg=/options=...) and some
   backslashes standing before "<" have been left out.  Text = sequences of cells.                              *)
EXTENDS Integers, Sequences

Min(S) == CHOOSE x \in S : \A y \in S : x <= y
Max(S) == CHOOSE x \in S : \A y \in S : x >= y
Max2(a, b) == IF a >= b THEN a ELSE b
Min2(a, b) == IF a <= b THEN a ELSE b

Blank == " "
RTrimC(s) == LET S == {k \in 1..Len(s) : s[k] \notin {Blank, "\t"}} IN IF S = {} THEN <<>> ELSE SubSeq(s, 1, Max(S))
LTrimC(s) == LET S == {k \in 1..Len(s) : s[k] # Blank} IN IF S = {} THEN <<>> ELSE SubSeq(s, Min(S), Len(s))
TrimC(s) == LTrimC(RTrimC(s))

\* ------------------------------------------------------------------ P: style markup aside
\* length of the tag-shaped piece starting at s[j] (0: none)
\* the style names of clikit's default style set and of pastel; a tag is a STYLE tag when its name is one of them or a
\* style definition (fg=..., bg=..., options=...), with or without the closing slash; "</>" closes whatever is open
StyleNames == {<<"b">>, <<"u">>, <<"c", "1">>, <<"c", "2">>, <<"i", "n", "f", "o">>, <<"e", "r", "r", "o", "r">>,
               <<"c", "o", "m", "m", "e", "n", "t">>, <<"q", "u", "e", "s", "t", "i", "o", "n">>}
IsStyleName(n) == n = <<>> \/ n \in StyleNames \/ \E k \in 1..Len(n) : n[k] = "="
\* length of the STYLE tag starting at s[j] (0: none).  Angle-bracket text that is no style - List<int>, <module>,
\* <nonexistent> - is text and must be shown
TagLen(s, j) ==
  IF s[j] # "<" THEN 0
  ELSE LET ends == {k \in (j + 1)..Len(s) : s[k] = ">" /\ \A i \in (j + 1)..(k - 1) : s[i] \notin {"<", ">", Blank}}
       IN IF ends = {} THEN 0
          ELSE LET e == Min(ends)
                   inner == SubSeq(s, j + 1, e - 1)
                   name == IF inner # <<>> /\ inner[1] = "/" THEN SubSeq(inner, 2, Len(inner)) ELSE inner
               IN IF (inner # <<>> /\ IsStyleName(name)) THEN e - j + 1 ELSE 0

\* cells that can only be matched literally; a run of them is consumed in one go (keeps the recursion shallow)
PlainAt(msg, j) == msg[j] \notin {"<", "\\", Blank}
RunLen(out, msg, i, j) ==
  Max({n \in 0..Min2(Len(out) - i + 1, Len(msg) - j + 1) :
         \A k \in 0..(n - 1) : PlainAt(msg, j + k) /\ out[i + k] = msg[j + k]})
RECURSIVE MatchFrom(_, _, _, _)
MatchFrom(out, msg, i, j) ==
  IF j > Len(msg) THEN \A k \in i..Len(out) : out[k] = Blank
  ELSE LET n == RunLen(out, msg, i, j) IN
       IF n > 0 THEN MatchFrom(out, msg, i + n, j + n)
       ELSE \/ (i <= Len(out) /\ out[i] = msg[j] /\ MatchFrom(out, msg, i + 1, j + 1))
            \/ ((i > Len(out) \/ i = 1) /\ msg[j] = Blank /\ MatchFrom(out, msg, i, j + 1))   \* blanks left at either end by a dropped tag
            \/ (TagLen(msg, j) > 0 /\ MatchFrom(out, msg, i, j + TagLen(msg, j)))
            \/ (msg[j] = "\\" /\ j < Len(msg) /\ msg[j + 1] = "<" /\ MatchFrom(out, msg, i, j + 1))
MatchAside(out, msg) == MatchFrom(out, msg, 1, 1)
\* one output line shows one message line (indentation and trailing blanks aside)
LineShows(outl, msgl) == MatchAside(TrimC(outl), TrimC(msgl))

\* the lines of the message appear as consecutive lines of the printed text
MessageShown(msg, printed) ==
  \E k \in 0..(Len(printed) - Len(msg)) : \A j \in 1..Len(msg) : LineShows(printed[k + j], msg[j])
=============================================================================
