---------------------------- MODULE AppRunTrace ----------------------------
(* Recorded runs of real applications checked against AppRun.  A trace is one event, or two: two runs one after the
   other whose I/Os share one formatter object (whatever the first report leaves on the formatter's style stack is
   there when the second one is written), or a session: several runs served by ONE application object (one handler
   object, one set of listeners, whose behaviour follows the environment of the run at hand) - nothing of an earlier run,
   failed or not, may show in a later status, report or handler invocation; each run is decided on its own.  Event:
     env   the environment (as in AppRun)
     msgs  [io, pre, l1, l2, l3, handler : [known, lines]]  the message of the exception each source raises in this run
           (known = FALSE: that source raises nothing, or its exception has no printable message)
     o     [status (-1: none), escaped ("" or the class that escaped run(), "returned:<type>" for a non-integer return),
            calls : Seq([cmd, args, opts]), out, err : the lines printed on the two streams (cells),
            chars : number of characters printed]
   The P-clauses are AppRun's; "the report shows the message" is ShownText!MessageShown (style markup aside) over
   everything that was printed.  A-clauses compare with the outcome the step machine computes for the environment.   *)
EXTENDS AppRun, TraceKit
ER == INSTANCE ShownText

VARIABLES tid, l
tvars == <<tid, l>>
T == Traces[tid]
E == T[l]

TInit == tid \in 1..NTraces /\ l = 1
Adv == l' = l + 1 /\ tid' = tid

Printed == E.o.out \o E.o.err
NonBlank(line) == \E k \in 1..Len(line) : line[k] # " "
SomethingPrinted == E.o.chars > 0        \* anything at all, a bare line end included
Src == Eff(E.env).src
MsgOf(src) == CASE src = "io" -> E.msgs.io [] src = "pre" -> E.msgs.pre [] src = "l1" -> E.msgs.l1 [] src = "l2" -> E.msgs.l2 [] src = "l3" -> E.msgs.l3
                [] src = "handler" -> E.msgs.handler [] OTHER -> [known |-> FALSE, lines |-> <<>>]
Shows == LET m == MsgOf(Src) IN
         m.known => ER!MessageShown(m.lines, Printed)
Obs == [status |-> E.o.status, escaped |-> E.o.escaped, calls |-> E.o.calls, reported |-> SomethingPrinted, shows |-> Shows]
\* short: TLC breaks printed tuples of more than ~80 characters over several lines
What == Eff(E.env).k \o Eff(E.env).v \o "@" \o Src

TRun == /\ l <= Len(T) /\ E.op = "run" /\ Adv
        /\ Check(tid, l, "H.env", "", E.env.line \in Lines /\ E.env.verb \in 0..3 /\ Len(E.env.listeners) <= 3 /\ E.env.scope \in Scopes /\ E.env.hroute \in {"object", "factory", "method", "callback2", "callback3", "callbackv", "factory_fn", "factory_class",
                                             "factory_method", "factory_partial", "factory_callable"})
        /\ Check(tid, l, "P.contained", What, Contained(E.env, Obs))
        /\ Check(tid, l, "P.status.zero", What, ZeroIff(E.env, Obs))
        /\ Check(tid, l, "P.status.clamp", What, Clamped(E.env, Obs))
        /\ Check(tid, l, "P.interrupt", What, Interrupt(E.env, Obs))
        /\ Check(tid, l, "P.reported", IF ~Obs.reported THEN "nothing printed" ELSE IF ~Obs.shows THEN "message not shown" ELSE "status",
                 Reported(E.env, Obs))
        /\ Check(tid, l, "P.calls", What, CallsOK(E.env, Obs))
        /\ LET m == Outcome(E.env) IN
           /\ Note(tid, l, "A.status", E.o.status = m.status /\ E.o.escaped = m.escaped)
           /\ Note(tid, l, "A.calls", E.o.calls = m.calls)
           /\ Note(tid, l, "A.printed", SomethingPrinted = (m.reported \/ m.noisy))

TDone == /\ l = Len(T) + 1 /\ l' = l + 1 /\ tid' = tid /\ Accept(tid)
TNext == TRun \/ TDone
TSpec == TInit /\ [][TNext]_tvars
=============================================================================
