SPECIFICATION Spec
CONSTANTS
  Apps <- AllApps
  Catching <- OnlyTrue
  Verbs <- Verbs2
  MCLines <- LinesOne
  Pres <- PresNone
  MaxListeners = 2
  ListenerKinds <- KindsFew
  ListenerValues <- ValuesL
  OutValues <- ValuesFew
  OutKinds <- KindsOne
  MCScopes <- ScopesTop
  MCRoutes <- RoutesOne
  MCExits <- ExitsNo
  MCIos <- IoOk
  Emitting = TRUE
INVARIANT PContained
INVARIANT PZeroIff
INVARIANT PClamped
INVARIANT PReported
INVARIANT PInterrupt
INVARIANT PCalls
INVARIANT FoldAgrees
INVARIANT AtMostOneCall
INVARIANT Emit
PROPERTY Terminates
