SPECIFICATION Spec
CONSTANTS
  Repaired = TRUE
  NColsSet = {3}
  NRowsSet = {1, 2}
  HdrSet = {FALSE}
  StyleSet = {"ascii", "borderless"}
  AvailSet <- A3to10
  IndSet = {0}
  AlignMode = 0
  Pool <- PoolTiny
INVARIANT TypeOK
INVARIANT InvSucceeds
INVARIANT InvFits
INVARIANT InvRectangle
INVARIANT InvAligned
INVARIANT InvTextKept
INVARIANT WidthBudget
INVARIANT Emit
