SPECIFICATION Spec
CONSTANTS
  Repaired = TRUE
  NColsSet = {2}
  NRowsSet = {2, 3}
  HdrSet = {FALSE}
  StyleSet = {"ascii", "borderless"}
  AvailSet <- ADup2
  IndSet = {0}
  AlignMode = 0
  DupMode = TRUE
  Pool <- PoolDup
INVARIANT TypeOK
INVARIANT InvSucceeds
INVARIANT InvFits
INVARIANT InvRectangle
INVARIANT InvAligned
INVARIANT InvTextKept
INVARIANT WidthBudget
INVARIANT Emit
