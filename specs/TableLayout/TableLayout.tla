----------------------------- MODULE TableLayout -----------------------------
(* clikit.ui.components.Table / CellWrapper / BorderUtil  with the predefined TableStyles   (property C14)

   P-layer (bottom of the file): the property, stated over the *drawn text* only:
            Pre, Fits, Rectangle, Aligned, TextKept (+ success and "table unchanged", which are observations).
            It knows the documented geometry of the four predefined styles (how many border columns and how much
            padding a table of n columns needs) and nothing about how widths are chosen or text is wrapped.
   A-layer: the algorithm of Table.render: CellWrapper.fit (_init_rows, the short/long classification loop,
            proportional distribution with rounding fix, textwrap.wrap with default options, width refresh)
            and BorderUtil.draw_border / draw_row.  One action per loop body.
            Repaired = TRUE models the tree with proposed_fixes/C14-min-column-width.diff applied (every column
            that has to be fitted keeps at least one character), Repaired = FALSE the pinned tree.

   Text is a sequence of character codes (naturals):
     0 blank   1 horizontal rule   2 vertical rule   3 corner / crossing   4 '=' (borderless header rule)
     9 any other character        >= 100: character of a cell text; code \div 100 is the *class* of the text
   All characters of one cell have the same class; cells of the same class carry the identical text (a value
   repeated in several rows or columns); the classes of different texts differ.  In the enumerated families the
   class is the number of the first cell (row-major from 1, header row first) that carries the text.          *)
EXTENDS Integers, Sequences, FiniteSets, SequencesExt, FiniteSetsExt, TLC

CONSTANT Repaired

SP == 0
HR == 1
VR == 2
XR == 3
EQ == 4
UNK == 9
IsCell(x) == x >= 100
CellOf(x) == x \div 100

Sum(s) == FoldLeft(LAMBDA a, b : a + b, 0, s)
MaxSeq(s) == FoldLeft(LAMBDA a, b : IF b > a THEN b ELSE a, 0, s)
Cat(ss) == FoldLeft(LAMBDA a, b : a \o b, <<>>, ss)
Spaces(k) == [j \in 1..k |-> SP]
Rep(s, k) == IF s = <<>> THEN <<>> ELSE [j \in 1..k |-> s[1]]       \* s is empty or one character
RStrip(s) == SubSeq(s, 1, SelectLastInSeq(s, LAMBDA x : x # SP))    \* str.rstrip()
NonSpace(t) == SelectSeq(t, LAMBDA x : x # SP)
Bigger(a, b) == IF a > b THEN a ELSE b
Smaller(a, b) == IF a < b THEN a ELSE b

\* ------------------------------------------------------------------ the predefined styles
Boxed(st) == st \in {"ascii", "solid"}          \* solid differs from ascii in the glyphs only (same codes here)
Styles == {"ascii", "solid", "borderless", "compact"}
NoLine == [ln |-> <<>>, l |-> <<>>, c |-> <<>>, r |-> <<>>]
BoxLine == [ln |-> <<HR>>, l |-> <<XR>>, c |-> <<XR>>, r |-> <<XR>>]
Geo(st) ==
  IF Boxed(st)
  THEN [vl |-> <<VR>>, vc |-> <<VR>>, vr |-> <<VR>>, fl |-> <<SP>>, fr |-> <<SP>>,        \* cell format " {} "
        top |-> BoxLine, mid |-> BoxLine, bot |-> BoxLine]
  ELSE [vl |-> <<>>, vc |-> <<SP>>, vr |-> <<>>, fl |-> <<>>, fr |-> <<>>,                \* cell format "{}"
        top |-> NoLine, bot |-> NoLine,
        mid |-> IF st = "borderless" THEN [ln |-> <<EQ>>, l |-> <<>>, c |-> <<SP>>, r |-> <<>>] ELSE NoLine]

\* columns taken by vertical rules / by the padding of the cell format, for n columns
BorderWidth(st, n) == LET g == Geo(st) IN Len(g.vl) + (n - 1) * Len(g.vc) + Len(g.vr)
Excess(st) == LET g == Geo(st) IN Len(g.fl) + Len(g.fr)
\* what is left for the text of the n columns
Avail(i) == i.T - i.ind - BorderWidth(i.style, i.n) - i.n * Excess(i.style)

\* ------------------------------------------------------------------ textwrap.wrap(text, width), default options
\* (expand_tabs/replace_whitespace are no-ops on blanks, drop_whitespace and break_long_words are on; no hyphens)
IsWhite(c) == IF c = <<>> THEN TRUE ELSE c[1] = SP                 \* chunk.strip() == ''
\* _split: maximal runs of blanks / non-blanks
Chunks(t) ==
  IF t = <<>> THEN <<>>
  ELSE LET r == FoldLeft(LAMBDA acc, j : IF (t[j] = SP) = (t[j - 1] = SP) THEN acc
                                          ELSE [done |-> Append(acc.done, SubSeq(t, acc.from, j - 1)), from |-> j],
                         [done |-> <<>>, from |-> 1], [j \in 1..(Len(t) - 1) |-> j + 1])
       IN Append(r.done, SubSeq(t, r.from, Len(t)))

\* end of a line: one trailing blank (or empty) chunk is dropped; an empty line is not stored
Finalize(lines, cur) ==
  LET c2 == IF cur = <<>> THEN cur
            ELSE IF IsWhite(cur[Len(cur)]) THEN SubSeq(cur, 1, Len(cur) - 1) ELSE cur
  IN IF c2 = <<>> THEN lines ELSE Append(lines, Cat(c2))

\* chunk c (or what is left of one) meets an empty line
AtLineStart(lines, c, w) ==
  IF c = <<>> THEN [lines |-> lines, cur |-> <<>>, len |-> 0]
  ELSE IF IsWhite(c) /\ lines # <<>> THEN [lines |-> lines, cur |-> <<>>, len |-> 0]          \* leading blanks dropped
  ELSE IF Len(c) <= w THEN [lines |-> lines, cur |-> <<c>>, len |-> Len(c)]
  ELSE LET q == (Len(c) - 1) \div w                          \* lines filled completely before the rest fits
           rest == SubSeq(c, q * w + 1, Len(c))
       IN [lines |-> IF IsWhite(c) THEN lines                \* over-long leading blanks are consumed line by line
                     ELSE lines \o [j \in 1..q |-> SubSeq(c, (j - 1) * w + 1, j * w)],
           cur |-> <<rest>>, len |-> Len(rest)]

\* one chunk in _wrap_chunks; a chunk longer than the width is broken to fill the *current* line first
Place(S, c, w) ==
  IF S.cur = <<>> THEN AtLineStart(S.lines, c, w)
  ELSE IF S.len + Len(c) <= w THEN [S EXCEPT !.cur = Append(@, c), !.len = @ + Len(c)]
  ELSE LET long == Len(c) > w
           sl == w - S.len
           cur1 == IF long THEN Append(S.cur, SubSeq(c, 1, sl)) ELSE S.cur
           rem == IF long THEN SubSeq(c, sl + 1, Len(c)) ELSE c
       IN AtLineStart(Finalize(S.lines, cur1), rem, w)

Wrap(t, w) ==
  LET S == FoldLeft(LAMBDA acc, c : Place(acc, c, w), [lines |-> <<>>, cur |-> <<>>, len |-> 0], Chunks(t))
  IN Finalize(S.lines, S.cur)

\* ------------------------------------------------------------------ A-layer state
VARIABLES inp,      \* [n, hdr, rows, style, T, ind, al]: the table, the style, terminal width, indentation, alignments (AlignOf)
          pc,       \* "classify" | "distribute" | "draw" | "done" | "fail" | "skip"
          colLen,   \* CellWrapper._column_lengths
          cellLen,  \* CellWrapper._cell_lengths
          wr,       \* CellWrapper._wrapped_rows: per cell its lines
          fit,      \* locals of _wrap_columns: avail, long (-1 = None), actual, last, col, remW, remC
          ties,     \* number of exact .5 cases met by round() (the code rounds a float: either neighbour may result)
          out       \* the lines written
vars == <<inp, pc, colLen, cellLen, wr, fit, ties, out>>

NRows(i) == Len(i.rows)
NoFit == [avail |-> 0, long |-> <<>>, actual |-> 0, last |-> 0, col |-> 0, remW |-> 0, remC |-> 0]

\* Table._get_cell_wrapper + CellWrapper._reset_state/_init_rows: cells right-stripped, natural widths
StartVals(i) ==
  LET R == NRows(i)
      txt == [r \in 1..R |-> [k \in 1..i.n |-> RStrip(i.rows[r][k])]]
      cl == [r \in 1..R |-> [k \in 1..i.n |-> Len(txt[r][k])]]
      col == [k \in 1..i.n |-> MaxSeq([r \in 1..R |-> cl[r][k]])]
  IN [wr |-> [r \in 1..R |-> [k \in 1..i.n |-> <<txt[r][k]>>]], cellLen |-> cl, colLen |-> col,
      pc |-> IF Sum(col) <= Avail(i) THEN "draw" ELSE "classify",
      fit |-> [NoFit EXCEPT !.avail = Avail(i), !.long = col]]

Start(i) ==
  LET v == StartVals(i)
  IN inp = i /\ pc = v.pc /\ colLen = v.colLen /\ cellLen = v.cellLen /\ wr = v.wr /\ fit = v.fit /\ ties = 0 /\ out = <<>>
Reset(i) ==
  LET v == StartVals(i)
  IN inp' = i /\ pc' = v.pc /\ colLen' = v.colLen /\ cellLen' = v.cellLen /\ wr' = v.wr /\ fit' = v.fit /\ ties' = 0 /\ out' = <<>>
Idle(i) == inp = i /\ pc = "skip" /\ colLen = <<>> /\ cellLen = <<>> /\ wr = <<>> /\ fit = NoFit /\ ties = 0 /\ out = <<>>
IdleNext(i) == inp' = i /\ pc' = "skip" /\ colLen' = <<>> /\ cellLen' = <<>> /\ wr' = <<>> /\ fit' = NoFit /\ ties' = 0 /\ out' = <<>>

\* one pass of the `while repeat` loop: threshold = available / number of columns, fixed during the pass;
\* length <= available / n  is decided exactly as  length * n <= available
ClassifyPass ==
  /\ pc = "classify"
  /\ LET n == inp.n
         S == {k \in 1..n : fit.long[k] >= 0 /\ fit.long[k] * n <= fit.avail}
     IN IF S # {}
        THEN /\ fit' = [fit EXCEPT !.avail = @ - Sum([k \in 1..n |-> IF k \in S THEN fit.long[k] ELSE 0]),
                                   !.long = [k \in 1..n |-> IF k \in S THEN -1 ELSE fit.long[k]]]
             /\ pc' = pc
        ELSE LET L == {k \in 1..n : fit.long[k] >= 0}
             IN /\ fit' = [fit EXCEPT !.actual = Sum([k \in 1..n |-> IF k \in L THEN fit.long[k] ELSE 0]),
                                      !.last = IF L = {} THEN 0 ELSE Max(L),
                                      !.col = IF L = {} THEN 0 ELSE Min(L),
                                      !.remW = fit.avail, !.remC = Cardinality(L)]
                /\ pc' = IF L = {} THEN "draw" ELSE "distribute"
  /\ UNCHANGED <<inp, colLen, cellLen, wr, ties, out>>

\* one iteration of "Fit columns into available width";  up \in {0,1} resolves an exact tie of round()
Distribute(up) ==
  /\ pc = "distribute"
  /\ LET c == fit.col
         len == fit.long[c]
         num == len * fit.avail
         f == num \div fit.actual
         r2 == 2 * (num % fit.actual)
         tie == r2 = fit.actual /\ c # fit.last
         w0 == IF r2 < fit.actual THEN f ELSE IF r2 > fit.actual THEN f + 1 ELSE f + up
         \* rounding fix: the last adapted column takes what the others leave
         w1 == IF c = fit.last THEN Avail(inp) - (Sum(colLen) - colLen[c]) ELSE w0
         remC1 == fit.remC - 1
         w == IF Repaired THEN Bigger(1, Smaller(w1, fit.remW - remC1)) ELSE w1
         R == NRows(inp)
         newWr == [r \in 1..R |-> IF cellLen[r][c] > w THEN [wr[r] EXCEPT ![c] = Wrap(wr[r][c][1], w)] ELSE wr[r]]
         newCl == [r \in 1..R |-> IF cellLen[r][c] > w
                                  THEN [cellLen[r] EXCEPT ![c] = MaxSeq([j \in 1..Len(newWr[r][c]) |-> Len(newWr[r][c][j])])]
                                  ELSE cellLen[r]]
         refreshed == MaxSeq([r \in 1..R |-> newCl[r][c]])
         later == {k \in (c + 1)..inp.n : fit.long[k] >= 0}
     IN IF w < 1
        THEN /\ pc' = "fail"                         \* textwrap: ValueError("invalid width")
             /\ UNCHANGED <<colLen, cellLen, wr, fit, ties>>
        ELSE /\ wr' = newWr /\ cellLen' = newCl
             /\ colLen' = [colLen EXCEPT ![c] = refreshed]
             /\ fit' = [fit EXCEPT !.actual = @ - len + refreshed, !.remW = @ - refreshed, !.remC = remC1,
                                   !.col = IF later = {} THEN 0 ELSE Min(later)]
             /\ ties' = IF tie THEN ties + 1 ELSE ties
             /\ pc' = IF later = {} THEN "draw" ELSE "distribute"
  /\ UNCHANGED <<inp, out>>

\* ------------------------------------------------------------------ column alignments (TableStyle)
\* calls = the sequence of set_column_alignment(col, a) calls made on the style (col 0-based, a: 0 left, 1 right,
\* 2 centred), in the order they were made.  The style keeps a list; setting a column beyond its end grows the list
\* with the default alignment (left); get_column_alignments(n) overlays the list on n defaults.
SetColumn(lst, col, a) ==
  LET grown == IF col > Len(lst) - 1 THEN lst \o [j \in 1..(col - Len(lst) + 1) |-> 0] ELSE lst
  IN [grown EXCEPT ![col + 1] = a]
AlignList(calls) == FoldLeft(LAMBDA lst, c : SetColumn(lst, c[1], c[2]), <<>>, calls)
\* (a list longer than the table has columns makes get_column_alignments raise IndexError: callers keep col < n)
AlignOf(n, calls) == LET lst == AlignList(calls) IN [k \in 1..n |-> IF k <= Len(lst) THEN lst[k] ELSE 0]

\* ------------------------------------------------------------------ drawing (BorderUtil)
Render(i, w, cl) ==
  LET g == Geo(i.style)
      n == i.n
      ex == Excess(i.style)
      Border(b) ==
        LET s == RStrip(Spaces(i.ind) \o b.l
                        \o Cat([k \in 1..n |-> Rep(b.ln, cl[k] + ex) \o (IF k < n THEN b.c ELSE b.r)]))
        IN IF s = <<>> THEN <<>> ELSE <<s>>
      Seg(r, k, j) ==
        LET t == IF j <= Len(w[r][k]) THEN w[r][k][j] ELSE <<>>
            p == cl[k] - Len(t)
            lp == IF i.al[k] = 1 THEN p ELSE IF i.al[k] = 2 THEN p \div 2 ELSE 0
        IN IF p < 0 THEN <<>>                               \* the code then skips the cell and its rule
           ELSE g.fl \o Spaces(lp) \o t \o Spaces(p - lp) \o g.fr \o (IF k < n THEN g.vc ELSE g.vr)
      RowLines(r) ==
        [j \in 1..MaxSeq([k \in 1..n |-> Len(w[r][k])]) |->
            RStrip(Spaces(i.ind) \o g.vl \o Cat([k \in 1..n |-> Seg(r, k, j)]))]
      first == IF i.hdr THEN 2 ELSE 1
  IN Border(g.top)
     \o (IF i.hdr THEN RowLines(1) \o Border(g.mid) ELSE <<>>)
     \o Cat([r \in 1..(NRows(i) - first + 1) |-> RowLines(r + first - 1)])
     \o Border(g.bot)

Draw == /\ pc = "draw"
        /\ out' = Render(inp, wr, colLen) /\ pc' = "done"
        /\ UNCHANGED <<inp, colLen, cellLen, wr, fit, ties>>

Step == ClassifyPass \/ (\E up \in {0, 1} : Distribute(up)) \/ Draw

\* ------------------------------------------------------------------ P-layer: the property on the drawn text
\* precondition: the terminal leaves at least one character per column beside borders, padding and indentation
Pre(i) == Avail(i) >= i.n

\* the class of a cell's text (0: empty cell), the classes of a table, the columns a class occurs in
ClassOfText(t) == LET ns == NonSpace(t) IN IF ns = <<>> THEN 0 ELSE CellOf(ns[1])
ClassAt(i, r, k) == ClassOfText(i.rows[r][k])
\* computed once per table: cl[r][k] class of the cell, set the classes, cols[g] the columns class g occurs in
ClassInfo(i) ==
  LET cl == [r \in 1..NRows(i) |-> [k \in 1..i.n |-> ClassAt(i, r, k)]]
      set == {cl[r][k] : r \in 1..NRows(i), k \in 1..i.n} \ {0}
  IN [cl |-> cl, set |-> set, cols |-> [g \in set |-> {k \in 1..i.n : \E r \in 1..NRows(i) : cl[r][k] = g}]]
Classes(i) == ClassInfo(i).set

\* no line is wider than the terminal
Fits(i, L) == \A j \in 1..Len(L) : Len(L[j]) <= i.T
\* all lines equally wide; styles without a right-hand rule end in blanks, which the output may omit
Rectangle(i, L) == Boxed(i.style) => \A j, k \in 1..Len(L) : Len(L[j]) = Len(L[k])

\* vertical rules of a line
Seps(ln) == SelectSeq([p \in 1..Len(ln) |-> IF ln[p] = VR THEN p ELSE 0], LAMBDA x : x # 0)

\* reading column k top to bottom gives the text of its cells of class g, row after row, blanks aside
Expected(i, ci, g, k) == Cat([r \in 1..NRows(i) |-> IF ci.cl[r][k] = g THEN NonSpace(i.rows[r][k]) ELSE <<>>])
\* - a class living in one column: all its characters, wherever they are drawn
ReadAll(L, g) == FoldLeft(LAMBDA acc, ln : IF \E p \in 1..Len(ln) : CellOf(ln[p]) = g
                                           THEN acc \o SelectSeq(ln, LAMBDA x : CellOf(x) = g) ELSE acc, <<>>, L)
\* - a text repeated in several columns, boxed styles: its characters between the rules of column k
ReadCol(L, g, k) ==
  FoldLeft(LAMBDA acc, ln : LET sp == Seps(ln)
                            IN IF Len(sp) >= k + 1
                               THEN acc \o SelectSeq(SubSeq(ln, sp[k] + 1, sp[k + 1] - 1), LAMBDA x : CellOf(x) = g)
                               ELSE acc, <<>>, L)
\* - a text repeated in several columns, styles without rules: columns cannot be told apart in the drawn text;
\*   every character is drawn as often as the cells contain it
CountIn(L, x) == Sum([j \in 1..Len(L) |-> Len(SelectSeq(L[j], LAMBDA y : y = x))])
CountExp(i, x) == Sum([r \in 1..NRows(i) |-> Sum([k \in 1..i.n |-> Len(SelectSeq(i.rows[r][k], LAMBDA y : y = x))])])
Chars(L) == UNION {{L[j][p] : p \in 1..Len(L[j])} : j \in 1..Len(L)}
KeptClass(i, ci, L, g) ==
  LET cols == ci.cols[g]
  IN IF Cardinality(cols) = 1 THEN ReadAll(L, g) = Expected(i, ci, g, CHOOSE k \in cols : TRUE)
     ELSE IF Boxed(i.style) THEN \A k \in cols : ReadCol(L, g, k) = Expected(i, ci, g, k)
     ELSE \A x \in {y \in Chars(L) \cup Chars(Cat([r \in 1..NRows(i) |-> i.rows[r]])) : IsCell(y) /\ CellOf(y) = g} :
             CountIn(L, x) = CountExp(i, x)
BadClasses(i, L) == LET ci == ClassInfo(i) IN {g \in ci.set : ~KeptClass(i, ci, L, g)}
\* ... and nothing but cell text, rules and blanks is drawn
Extra(i, L) == LET set == Classes(i) IN {x \in Chars(L) : ~(x \in {SP, HR, VR, XR, EQ} \/ (IsCell(x) /\ CellOf(x) \in set))}
TextKept(i, L) == Extra(i, L) = {} /\ BadClasses(i, L) = {}

\* every column has the same extent in every row:
\*  (a) the text of column k (texts that occur in this column only) stays inside one vertical band, and the bands
\*      of different columns do not overlap
ColPos(L, k, cm) ==
  UNION {{p \in 1..Len(L[j]) : IsCell(L[j][p]) /\ (IF CellOf(L[j][p]) \in DOMAIN cm THEN cm[CellOf(L[j][p])] = k ELSE FALSE)}
         : j \in 1..Len(L)}
Bands(i, L) ==
  LET ci == ClassInfo(i)
      cm == [g \in ci.set |-> IF Cardinality(ci.cols[g]) = 1 THEN CHOOSE k \in ci.cols[g] : TRUE ELSE 0]
      pos == [k \in 1..i.n |-> ColPos(L, k, cm)]
  IN \A k1, k2 \in 1..i.n : (k1 < k2 /\ pos[k1] # {} /\ pos[k2] # {}) => Max(pos[k1]) < Min(pos[k2])
\*  (b) with vertical rules: n+1 rules at the same offsets in every row line, every character of a cell text
\*      between the two rules of a column that carries this text
IsRowLine(ln) == \E p \in 1..Len(ln) : IsCell(ln[p]) \/ ln[p] = VR \/ ln[p] = UNK
Rules(i, L) ==
  Boxed(i.style) =>
    LET rl == SelectSeq(L, IsRowLine)
        ci == ClassInfo(i)
    IN \A j \in 1..Len(rl) :
         LET sp == Seps(rl[j])
         IN /\ Len(sp) = i.n + 1
            /\ sp = Seps(rl[1])
            /\ \A p \in 1..Len(rl[j]) :
                 (IsCell(rl[j][p]) /\ CellOf(rl[j][p]) \in ci.set) =>
                     \E k \in ci.cols[CellOf(rl[j][p])] : sp[k] < p /\ p < sp[k + 1]
\*  (c) borderless style: the header underline is a row like the others - no line is longer than it, every character of
\*      a column's text stands above / below a '=' of the underline, and the '=' runs of two columns are separated
Underline(i, L) ==
  (i.style = "borderless") =>
    LET ci == ClassInfo(i)
        cm == [g \in ci.set |-> IF Cardinality(ci.cols[g]) = 1 THEN CHOOSE k \in ci.cols[g] : TRUE ELSE 0]
        pos == [k \in 1..i.n |-> ColPos(L, k, cm)]
    IN \A j \in 1..Len(L) :
         (\E p \in 1..Len(L[j]) : L[j][p] = EQ) =>
            /\ \A m \in 1..Len(L) : Len(L[m]) <= Len(L[j])
            /\ \A k \in 1..i.n : \A p \in pos[k] : p <= Len(L[j]) /\ L[j][p] = EQ
            /\ \A k1, k2 \in 1..i.n : (k1 < k2 /\ pos[k1] # {} /\ pos[k2] # {}) =>
                  \E q \in (Max(pos[k1]) + 1)..(Min(pos[k2]) - 1) : L[j][q] # EQ
Aligned(i, L) == Bands(i, L) /\ Rules(i, L) /\ Underline(i, L)

\* ------------------------------------------------------------------ A => P, checked by TLC
InvSucceeds == Pre(inp) => pc # "fail"
InvFits == (pc = "done" /\ Pre(inp)) => Fits(inp, out)
InvRectangle == (pc = "done" /\ Pre(inp)) => Rectangle(inp, out)
InvAligned == (pc = "done" /\ Pre(inp)) => Aligned(inp, out)
InvTextKept == (pc = "done" /\ Pre(inp)) => TextKept(inp, out)
\* A-level: after fitting, the columns use no more than the available width and every long column kept >= 1
WidthBudget == (pc \in {"draw", "done"} /\ Pre(inp)) => Sum(colLen) <= Avail(inp)
TypeOK == /\ pc \in {"classify", "distribute", "draw", "done", "fail", "skip"}
          /\ ties \in 0..6

\* harness sanity: a cell's text consists of blanks and characters of one class; equal classes, equal texts
WellFormed(i) ==
  /\ i.n >= 1 /\ NRows(i) >= 1 /\ Len(i.al) = i.n /\ i.style \in Styles
  /\ \A r \in 1..NRows(i) : Len(i.rows[r]) = i.n
  /\ \A r \in 1..NRows(i), k \in 1..i.n : \A p \in 1..Len(i.rows[r][k]) :
        i.rows[r][k][p] = SP \/ (CellOf(i.rows[r][k][p]) = ClassAt(i, r, k) /\ i.rows[r][k][p] % 100 # 0)
  /\ \A r1, r2 \in 1..NRows(i), k1, k2 \in 1..i.n :
        (ClassAt(i, r1, k1) # 0 /\ ClassAt(i, r1, k1) = ClassAt(i, r2, k2)) => RStrip(i.rows[r1][k1]) = RStrip(i.rows[r2][k2])
=============================================================================
