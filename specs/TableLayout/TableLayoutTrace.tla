-------------------------- MODULE TableLayoutTrace --------------------------
(* Recorded calls of the real Table.render checked against TableLayout.
   A trace is a list of render events; an event:
     n, hdr, rows, style, T, ind, al      the table as the driver built it (visible text of every cell as codes)
     tagged                               cells (numbers) that contain <b>..</b> style tags in the real table
     before, after                        projection of the table's own rows read before / after render
                                          (tag characters appear as code 9)
     obs = [kind ("ok"|"exc"), cls, lines]   what render did: exception class, or the written lines (visible
                                          characters, escape sequences removed, as codes)
     runA                                 whether the A-layer is to be run on this table as well (DRIFT only)
   P-clauses are evaluated on the observation only.  The A-layer's exact ties of round() are resolved by
   trying the alternatives one after the other (orc) before a DRIFT is noted.                                  *)
EXTENDS TableLayout, TraceKit

VARIABLES tid, l, orc
tvars == <<vars, tid, l, orc>>

T == Traces[tid]
Ev == T[l]
InpOf(e) == [n |-> e.n, hdr |-> e.hdr, rows |-> e.rows, style |-> e.style, T |-> e.T, ind |-> e.ind, al |-> e.al]

TInit == /\ tid \in 1..NTraces /\ l = 1 /\ orc = 0
         /\ IF Len(Traces[tid]) >= 1
            THEN IF Traces[tid][1].runA THEN Start(InpOf(Traces[tid][1])) ELSE Idle(InpOf(Traces[tid][1]))
            ELSE Idle([n |-> 0])

Running == pc \in {"classify", "distribute", "draw"}
Bit == (orc \div (2 ^ ties)) % 2
TStep == /\ l <= Len(T) /\ Running
         /\ (ClassifyPass \/ Distribute(Bit) \/ Draw)
         /\ UNCHANGED <<tid, l, orc>>

AMatches(e) == IF pc = "skip" THEN TRUE
               ELSE IF pc = "fail" THEN e.obs.kind = "exc"
               ELSE e.obs.kind = "ok" /\ e.obs.lines = out
MoreOracles == pc # "skip" /\ orc + 1 < 2 ^ ties

\* the other outcome of an exact tie of round() has not been tried yet
TRetry == /\ l <= Len(T) /\ ~Running /\ ~AMatches(Ev) /\ MoreOracles
          /\ orc' = orc + 1 /\ Reset(InpOf(Ev)) /\ UNCHANGED <<tid, l>>

Tagged(e, c) == \E j \in 1..Len(e.tagged) : e.tagged[j] = c
\* a violation of the text clause that is confined to cells carrying style tags is the known defect
\* "cells are wrapped by a wrapper that does not know about style tags"
TextKey(e) ==
  LET i == InpOf(e)
      bad == BadCells(i, e.obs.lines)
  IN IF e.tagged # <<>> /\ (\A c \in bad : Tagged(e, c)) THEN "tagged-cell" ELSE ""
ExcKey(e) == IF e.tagged # <<>> THEN e.obs.cls \o "/tagged-cell" ELSE e.obs.cls

Clauses(e) ==
  LET i == InpOf(e)
      L == e.obs.lines
  IN /\ Check(tid, l, "H.input", "", WellFormed(i))
     /\ Check(tid, l, "H.before", "", \A r \in 1..NRows(i) : \A k \in 1..i.n :
                                         SelectSeq(e.before[r][k], LAMBDA x : x # UNK) = i.rows[r][k])
     /\ IF ~Pre(i) THEN TRUE
        ELSE /\ Check(tid, l, "P.succeeds", ExcKey(e), e.obs.kind = "ok")
             /\ Check(tid, l, "P.unchanged", "", e.after = e.before)
             /\ Check(tid, l, "P.fits", "", Fits(i, L))
             /\ Check(tid, l, "P.rectangle", "", Rectangle(i, L))
             /\ Check(tid, l, "P.aligned", "", Aligned(i, L))
             /\ Check(tid, l, "P.textkept", TextKey(e), TextKept(i, L))
     /\ Note(tid, l, "A.lines", AMatches(e))

TCompare ==
  /\ l <= Len(T) /\ ~Running
  /\ IF AMatches(Ev) THEN TRUE ELSE ~MoreOracles
  /\ Clauses(Ev)
  /\ l' = l + 1 /\ tid' = tid /\ orc' = 0
  /\ IF l + 1 <= Len(T)
     THEN IF T[l + 1].runA THEN Reset(InpOf(T[l + 1])) ELSE IdleNext(InpOf(T[l + 1]))
     ELSE UNCHANGED vars

TDone == /\ l = Len(T) + 1 /\ l' = l + 1 /\ tid' = tid /\ UNCHANGED <<vars, orc>> /\ Accept(tid)

TNext == TStep \/ TRetry \/ TCompare \/ TDone
TSpec == TInit /\ [][TNext]_tvars
=============================================================================
