-------------------------- MODULE TableLayoutTrace --------------------------
(* Recorded calls on real Table objects checked against TableLayout (what a render draws) and TableObject (which
   rows and header a table has after a history of calls).  A trace is a list of events; every event carries
   every field:
     op                                   "render" | "set_header" | "add_row" | "add_rows" | "set_row" | "set_rows" |
                                          "align" (set_column_alignment(idx, a) on the table's style object)
     fromObj                              FALSE: a render of a table the driver built in one go, described by
                                          n, hdr, rows;  TRUE: a call on the one Table object of this trace, whose
                                          rows and header are those the TableObject model has at that moment
     row, rws, idx                        arguments of the object calls (cell texts as codes)
     n, hdr, rows, style, T, ind          the table (fromObj = FALSE), style, terminal width, indentation
     calls                                the set_column_alignment(col, a) calls made on the style, in order
     tagged                               cells (numbers, row-major) that contain <b>..</b> style tags in the real table
     before, after                        projection of the table's own rows read before / after the call
                                          (tag characters appear as code 9)
     cb, ca                               projection of the row / header objects the caller handed to the table so
                                          far, read before / after the call
     obs = [kind ("ok"|"exc"), cls, lines]   what the call did: exception class, or (render) the written lines
                                          (visible characters, escape sequences removed, as codes)
     runA                                 whether the A-layer is to be run on this render as well (DRIFT only)
   P-clauses are evaluated on the observation only.  The A-layer's exact ties of round() are resolved by
   trying the alternatives one after the other (orc) before a DRIFT is noted.                                  *)
EXTENDS TableLayout, TableObject, TraceKit

VARIABLES tid, l, orc,
          ph,     \* "begin": the next event has not been looked at; "run": the A-layer works on a render event
          tbl     \* TableObject state of the trace's Table object
tvars == <<vars, tid, l, orc, ph, tbl>>

T == Traces[tid]
Ev == T[l]
InpOf(e) == IF e.fromObj
            THEN [n |-> tbl.ncols, hdr |-> tbl.hdr # <<>>, rows |-> ShownRows(tbl), style |-> e.style, T |-> e.T,
                  ind |-> e.ind, al |-> AlignOf(tbl.ncols, tbl.calls)]
            ELSE [n |-> e.n, hdr |-> e.hdr, rows |-> e.rows, style |-> e.style, T |-> e.T, ind |-> e.ind,
                  al |-> AlignOf(e.n, e.calls)]
\* a table without body rows draws nothing: no clause applies
\* (nor when the style carries an alignment for a column the table does not have: caller error)
Drawn(e) == IF e.fromObj THEN Shows(tbl) /\ Len(AlignList(tbl.calls)) <= tbl.ncols ELSE TRUE

TInit == /\ tid \in 1..NTraces /\ l = 1 /\ orc = 0 /\ ph = "begin" /\ tbl = Empty
         /\ Idle([n |-> 0])

\* ---- calls that change the object
Applied(e) == CASE e.op = "set_header" -> FSetHeader(tbl, e.row)
                [] e.op = "add_row" -> FAddRow(tbl, e.row)
                [] e.op = "set_row" -> FSetRow(tbl, e.idx, e.row)
                [] e.op = "set_rows" -> FSetRows(tbl, e.rws)
                [] e.op = "add_rows" -> FAddRows(tbl, e.rws)
                [] e.op = "align" -> FAlign(tbl, e.idx, e.a)
TObjOp ==
  /\ l <= Len(T) /\ ph = "begin" /\ Ev.op # "render"
  /\ LET r == Applied(Ev)
     IN /\ tbl' = r.t
        /\ Note(tid, l, "A.call", IF r.err = "" THEN Ev.obs.kind = "ok" ELSE Ev.obs.kind = "exc" /\ Ev.obs.cls = r.err)
        /\ Note(tid, l, "A.state", Ev.after = ShownRows(r.t))
  /\ l' = l + 1 /\ UNCHANGED <<vars, tid, orc, ph>>

\* ---- renders
TBegin == /\ l <= Len(T) /\ ph = "begin" /\ Ev.op = "render"
          /\ IF Ev.runA /\ Drawn(Ev) THEN Reset(InpOf(Ev)) ELSE IdleNext(InpOf(Ev))
          /\ ph' = "run" /\ UNCHANGED <<tid, l, orc, tbl>>

Running == pc \in {"classify", "distribute", "draw"}
Bit == (orc \div (2 ^ ties)) % 2
TStep == /\ l <= Len(T) /\ ph = "run" /\ Running
         /\ (ClassifyPass \/ Distribute(Bit) \/ Draw)
         /\ UNCHANGED <<tid, l, orc, ph, tbl>>

AMatches(e) == IF pc = "skip" THEN TRUE
               ELSE IF pc = "fail" THEN e.obs.kind = "exc"
               ELSE e.obs.kind = "ok" /\ e.obs.lines = out
MoreOracles == pc # "skip" /\ orc + 1 < 2 ^ ties

\* the other outcome of an exact tie of round() has not been tried yet
TRetry == /\ l <= Len(T) /\ ph = "run" /\ ~Running /\ ~AMatches(Ev) /\ MoreOracles
          /\ orc' = orc + 1 /\ Reset(InpOf(Ev)) /\ UNCHANGED <<tid, l, ph, tbl>>

\* The known defect "cells are wrapped by a wrapper that does not know about style tags" covers a tagged cell that HAS
\* to be wrapped: its visible text is wider than its column as drawn (boxed styles: the distance of the column's rules
\* minus the padding; without rules the column width cannot be read off the text and every tagged cell counts).
\* A violation of the text clause confined to such cells carries the key "tagged-cell"; a damaged tagged cell that
\* would have fitted its column is an ordinary violation.
ColWidth(i, L, k) ==
  LET rl == SelectSeq(L, LAMBDA ln : Len(Seps(ln)) = i.n + 1)
  IN IF rl = <<>> THEN 0 ELSE Seps(rl[1])[k + 1] - Seps(rl[1])[k] - 1 - Excess(i.style)
TaggedToWrap(e, i, L) ==
  {c \in {e.tagged[j] : j \in 1..Len(e.tagged)} :
      LET r == (c - 1) \div i.n + 1
          k == ((c - 1) % i.n) + 1
      IN IF Boxed(i.style) THEN Len(RStrip(i.rows[r][k])) > ColWidth(i, L, k) ELSE TRUE}
TextKey(e) ==
  LET i == InpOf(e)
      L == e.obs.lines
      tw == TaggedToWrap(e, i, L)
      cls == {ClassOfText(i.rows[(c - 1) \div i.n + 1][((c - 1) % i.n) + 1]) : c \in tw}
  IN IF tw # {} /\ BadClasses(i, L) \subseteq cls THEN "tagged-cell" ELSE ""
ExcKey(e) == IF e.tagged # <<>> THEN e.obs.cls \o "/tagged-cell" ELSE e.obs.cls

Clauses(e) ==
  LET i == InpOf(e)
      L == e.obs.lines
  IN IF ~Drawn(e) THEN (IF e.fromObj /\ tbl.rows = <<>> THEN Note(tid, l, "A.lines", e.obs.kind = "ok" /\ L = <<>>) ELSE TRUE)
     ELSE
     /\ Check(tid, l, "H.input", "", WellFormed(i))
     /\ IF e.obs.kind = "exc"                  \* building the table or rendering it raised: nothing else to look at
        THEN (IF Pre(i) THEN Check(tid, l, "P.succeeds", ExcKey(e), FALSE) ELSE TRUE)
        ELSE /\ IF e.fromObj THEN Note(tid, l, "A.state", e.before = i.rows)
                ELSE Check(tid, l, "H.before", "", Len(e.before) = NRows(i) /\ \A r \in 1..NRows(i) : Len(e.before[r]) = i.n /\ \A k \in 1..i.n :
                                         SelectSeq(e.before[r][k], LAMBDA x : x # UNK) = i.rows[r][k])
             /\ IF ~Pre(i) THEN TRUE
                ELSE /\ Check(tid, l, "P.unchanged", IF e.after = e.before THEN "caller" ELSE "", e.after = e.before /\ e.ca = e.cb)
                     /\ Check(tid, l, "P.fits", "", Fits(i, L))
                     /\ Check(tid, l, "P.rectangle", "", Rectangle(i, L))
                     /\ Check(tid, l, "P.aligned", "", Aligned(i, L))
                     /\ Check(tid, l, "P.textkept", TextKey(e), TextKept(i, L))
     /\ Note(tid, l, "A.lines", AMatches(e))

TCompare ==
  /\ l <= Len(T) /\ ph = "run" /\ ~Running
  /\ IF AMatches(Ev) THEN TRUE ELSE ~MoreOracles
  /\ Clauses(Ev)
  /\ l' = l + 1 /\ tid' = tid /\ orc' = 0 /\ ph' = "begin" /\ UNCHANGED <<vars, tbl>>

TDone == /\ l = Len(T) + 1 /\ ph = "begin" /\ l' = l + 1 /\ UNCHANGED <<vars, tid, orc, ph, tbl>> /\ Accept(tid)

TNext == TObjOp \/ TBegin \/ TStep \/ TRetry \/ TCompare \/ TDone
TSpec == TInit /\ [][TNext]_tvars
=============================================================================
