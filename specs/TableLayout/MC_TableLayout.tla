--------------------------- MODULE MC_TableLayout ---------------------------
(* C14: families of small tables (one render each; histories on one Table object: MC_TableObject).  Every table of the family is one initial state; the A-layer renders it; the
   P-invariants are checked on the drawn text and the finished behaviour is emitted for replay on the real
   Table.render.  Cells are given as sequences of word lengths; the characters of cell c are numbered
   c*100 + 1..K cyclically, words are joined by one blank.                                              *)
EXTENDS TableLayout, Json

CONSTANTS NColsSet, NRowsSet, HdrSet, StyleSet, AvailSet, IndSet, AlignMode, Pool, DupMode

K == 6
Word(c, from, len) == [j \in 1..len |-> c * 100 + ((from + j - 2) % K) + 1]
RECURSIVE TextFrom(_, _, _)
TextFrom(c, ws, from) ==
  IF ws = <<>> THEN <<>>
  ELSE Word(c, from, Head(ws)) \o (IF Len(ws) > 1 THEN <<SP>> ELSE <<>>) \o TextFrom(c, Tail(ws), from + Head(ws))

SeqsUpTo(S, m) == UNION {[1..k -> S] : k \in 0..m}
\* every cell of 0..3 words with lengths 1, 3, 7 (40 cells)
PoolFull == SeqsUpTo({1, 3, 7}, 3)
PoolMid == {<<>>, <<1>>, <<3>>, <<7>>, <<3, 1>>, <<1, 7>>, <<7, 3, 1>>, <<3, 3, 3>>, <<15>>, <<2, 2, 2, 2>>}
PoolSmall == {<<>>, <<2>>, <<5, 1>>, <<9>>, <<1, 1, 4>>}
PoolTiny == {<<>>, <<3>>, <<4, 2>>, <<8>>}
PoolDup == {<<3>>, <<7, 3, 7>>, <<3, 3, 3, 3>>, <<15>>, <<1, 7>>}
ADup == {4, 6, 9, 13}
ADup2 == {4, 9}
PoolTwo == {<<3>>, <<4, 2>>}
AAlign == {5, 13}
\* 0..2 words with lengths 1, 3, 7 and a few longer cells (20 cells)
PoolQuick == SeqsUpTo({1, 3, 7}, 2) \cup {<<3, 3, 3>>, <<1, 7, 1>>, <<7, 1, 3>>, <<1, 1, 1>>, <<7, 7, 7>>, <<3, 1, 7>>, <<15>>}

\* alignments are set through TableStyle.set_column_alignment(col, a) (a: 0 left, 1 right, 2 centred); a family
\* chooses the *sequence of calls*:  AlignMode 0 none (all left); 1 three rotations, columns ascending (every
\* alignment in every column); 2 every combination, ascending; 3 every order: all sequences of up to two calls
\* (ascending, descending, the same column twice) and every permutation of the columns with alignments 1/2
Opts(n) == {<<c, a>> : c \in 0..(n - 1), a \in {1, 2}}
Perms(n) == {p \in [1..n -> 0..(n - 1)] : \A j, k \in 1..n : j # k => p[j] # p[k]}
CallSeqs(n) == UNION {[1..m -> Opts(n)] : m \in 0..2}
               \cup {[k \in 1..n |-> <<p[k], al[k]>>] : p \in Perms(n), al \in [1..n -> {1, 2}]}
AlignsOf(n) == IF AlignMode = 3 THEN CallSeqs(n)
               ELSE IF AlignMode = 2 THEN {[k \in 1..n |-> <<k - 1, al[k]>>] : al \in [1..n -> {0, 1, 2}]}
               ELSE IF AlignMode = 1 THEN {[k \in 1..n |-> <<k - 1, (k + s) % 3>>] : s \in 0..2}
               ELSE {<<>>}

\* DupMode: cells with the same (non-empty) word lengths carry the identical text - a value repeated in several
\* rows / columns: the text class is the number of the first such cell
ClassFor(cells, c) == IF DupMode /\ cells[c] # <<>> THEN CHOOSE d \in 1..c : cells[d] = cells[c] /\ \A e \in 1..(d - 1) : cells[e] # cells[c]
                      ELSE c
MkInp(n, h, R, st, av, ind, calls, cells) ==
  LET RR == R + (IF h THEN 1 ELSE 0)
  IN [n |-> n, hdr |-> h, style |-> st, ind |-> ind, al |-> AlignOf(n, calls), calls |-> calls,
      T |-> av + ind + BorderWidth(st, n) + n * Excess(st),
      rows |-> [r \in 1..RR |-> [k \in 1..n |-> TextFrom(ClassFor(cells, (r - 1) * n + k), cells[(r - 1) * n + k], 1)]]]

Init == \E n \in NColsSet, h \in HdrSet, R \in NRowsSet, st \in StyleSet, av \in AvailSet, ind \in IndSet :
          \E calls \in AlignsOf(n) :
            \E cells \in [1..((R + (IF h THEN 1 ELSE 0)) * n) -> Pool] :
               av >= n /\ Start(MkInp(n, h, R, st, av, ind, calls, cells))
Spec == Init /\ [][Step]_vars

Emit == pc \in {"done", "fail"} =>
  PrintT(ToJson([n |-> inp.n, hdr |-> inp.hdr, rows |-> inp.rows, style |-> inp.style, T |-> inp.T, ind |-> inp.ind,
                 al |-> inp.al, calls |-> inp.calls, fail |-> (pc = "fail"), lines |-> out, colLen |-> colLen, ties |-> ties]))

A2to12 == 1..12
A1to20 == 1..20
ASome == {2, 3, 4, 6, 9, 13}
AFew == {2, 4, 7}
A3to10 == 3..10
=============================================================================
