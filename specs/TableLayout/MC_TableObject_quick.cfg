SPECIFICATION Spec
CONSTANTS
  Depth = 4
  Widths = {"narrow"}
INVARIANT ObjectConsistent
INVARIANT Emit
