--------------------------- MODULE MC_TableObject ---------------------------
(* Every sequence of Depth operations on one Table object over a small menu (two headers, three rows, rows of the
   wrong length, add_rows, set_row at valid / invalid positions, an alignment set on the table's style, set_rows with and without a rejected row, render on a
   narrow and a wide terminal).  The sequences are emitted and replayed on a real Table; what each render shows
   is judged by TableLayoutTrace against the table state this model has at that moment.                       *)
EXTENDS TableObject, Json, TLC

CONSTANT Depth, Widths
VARIABLES tbl, hist
vars == <<tbl, hist>>

K == 6
Word(c, from, len) == [j \in 1..len |-> c * 100 + ((from + j - 2) % K) + 1]
RECURSIVE TextFrom(_, _, _)
TextFrom(c, ws, from) ==
  IF ws = <<>> THEN <<>>
  ELSE Word(c, from, Head(ws)) \o (IF Len(ws) > 1 THEN <<0>> ELSE <<>>) \o TextFrom(c, Tail(ws), from + Head(ws))
\* item number it, cells given as word lengths; the text class of cell k is (it-1)*3 + k
Item(it, cells) == [k \in 1..Len(cells) |-> TextFrom((it - 1) * 3 + k, cells[k], 1)]

H1 == Item(1, <<<<2>>, <<1>>>>)
H2 == Item(2, <<<<7, 3>>, <<3>>>>)
HB == Item(3, <<<<2>>>>)
R1 == Item(4, <<<<3>>, <<1>>>>)
R2 == Item(5, <<<<7, 3, 7>>, <<3, 3>>>>)
R3 == Item(6, <<<<3, 1>>, <<7, 7, 3>>>>)
RB == Item(7, <<<<1>>, <<1>>, <<1>>>>)


Init == tbl = Empty /\ hist = <<>>
Next ==
  /\ Len(hist) < Depth
  /\ \/ \E h \in {H1, H2, HB} : LET r == FSetHeader(tbl, h) IN
          tbl' = r.t /\ hist' = Append(hist, [op |-> "set_header", row |-> h, rws |-> <<>>, idx |-> 0, w |-> "", err |-> r.err])
     \/ \E x \in {R1, RB} : LET r == FAddRow(tbl, x) IN
          tbl' = r.t /\ hist' = Append(hist, [op |-> "add_row", row |-> x, rws |-> <<>>, idx |-> 0, w |-> "", err |-> r.err])
     \/ LET r == FAddRows(tbl, <<R3, R1>>) IN
          tbl' = r.t /\ hist' = Append(hist, [op |-> "add_rows", row |-> <<>>, rws |-> <<R3, R1>>, idx |-> 0, w |-> "", err |-> r.err])
     \/ LET r == FAlign(tbl, 0, 1) IN
          tbl' = r.t /\ hist' = Append(hist, [op |-> "align", row |-> <<>>, rws |-> <<>>, idx |-> 0, w |-> "", err |-> r.err])
     \/ \E ix \in {0, 2} : LET r == FSetRow(tbl, ix, R2) IN
          tbl' = r.t /\ hist' = Append(hist, [op |-> "set_row", row |-> R2, rws |-> <<>>, idx |-> ix, w |-> "", err |-> r.err])
     \/ \E rs \in {<<R2, R1>>, <<R1, RB, R3>>} : LET r == FSetRows(tbl, rs) IN
          tbl' = r.t /\ hist' = Append(hist, [op |-> "set_rows", row |-> <<>>, rws |-> rs, idx |-> 0, w |-> "", err |-> r.err])
     \/ \E w \in Widths :
          tbl' = tbl /\ hist' = Append(hist, [op |-> "render", row |-> <<>>, rws |-> <<>>, idx |-> 0, w |-> w, err |-> ""])
Spec == Init /\ [][Next]_vars

ObjectConsistent == Consistent(tbl)
\* sequences without a render show nothing
Emit == (Len(hist) = Depth /\ \E j \in 1..Depth : hist[j].op = "render") => PrintT(ToJson(hist))
=============================================================================
