SPECIFICATION Spec
CONSTANTS
  Depth = 9
  Widths = {"narrow", "wide"}
INVARIANT ObjectConsistent
INVARIANT Emit
