SPECIFICATION Spec
CONSTANTS
  Depth = 4
  Widths = {"narrow", "wide"}
INVARIANT ObjectConsistent
INVARIANT Emit
