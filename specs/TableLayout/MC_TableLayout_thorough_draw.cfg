SPECIFICATION Spec
CONSTANTS
  Repaired = TRUE
  NColsSet = {1, 2}
  NRowsSet = {1, 2}
  HdrSet = {TRUE}
  StyleSet = {"ascii", "solid", "borderless", "compact"}
  AvailSet <- AFew
  IndSet = {2}
  AlignMode = 1
  DupMode = FALSE
  Pool <- PoolTiny
INVARIANT TypeOK
INVARIANT InvSucceeds
INVARIANT InvFits
INVARIANT InvRectangle
INVARIANT InvAligned
INVARIANT InvTextKept
INVARIANT WidthBudget
INVARIANT Emit
