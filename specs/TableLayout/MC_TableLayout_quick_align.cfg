SPECIFICATION Spec
CONSTANTS
  Repaired = TRUE
  NColsSet = {1, 2, 3}
  NRowsSet = {1}
  HdrSet = {FALSE}
  StyleSet = {"ascii", "borderless"}
  AvailSet <- AAlign
  IndSet = {0}
  AlignMode = 3
  DupMode = FALSE
  Pool <- PoolTwo
INVARIANT TypeOK
INVARIANT InvSucceeds
INVARIANT InvFits
INVARIANT InvRectangle
INVARIANT InvAligned
INVARIANT InvTextKept
INVARIANT WidthBudget
INVARIANT Emit
