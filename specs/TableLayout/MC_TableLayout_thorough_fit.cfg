SPECIFICATION Spec
CONSTANTS
  Repaired = TRUE
  NColsSet = {1, 2}
  NRowsSet = {1}
  HdrSet = {FALSE}
  StyleSet = {"ascii", "borderless", "compact"}
  AvailSet <- A1to20
  IndSet = {0}
  AlignMode = 0
  DupMode = FALSE
  Pool <- PoolFull
INVARIANT TypeOK
INVARIANT InvSucceeds
INVARIANT InvFits
INVARIANT InvRectangle
INVARIANT InvAligned
INVARIANT InvTextKept
INVARIANT WidthBudget
INVARIANT Emit
