----------------------------- MODULE TableObject -----------------------------
(* clikit.ui.components.Table as an object with a history   (property C14: "rendering does not modify the table",
   and every render shows exactly the rows and the header the table has at that moment).

   tbl = [ncols, hdr, rows, calls]: number of columns (-1: not fixed yet; an empty first row fixes it at 0), header row
   (<<>>: none), body rows, and the set_column_alignment(col, a) calls made so far on the table's style object.
   The operations are given as functions  table -> [t: table afterwards, err: "" or the exception class]  so that
   the model checker (MC_TableObject: every operation sequence up to Depth) and the trace module
   (TableLayoutTrace: recorded sequences on a real Table) share them.  Rows are sequences of cell texts.      *)
EXTENDS Integers, Sequences

Empty == [ncols |-> -1, hdr |-> <<>>, rows |-> <<>>, calls |-> <<>>]
Res(t, e) == [t |-> t, err |-> e]
\* the first row or header fixes the number of columns; later ones must have it
Accepts(t, row) == IF t.ncols = -1 THEN TRUE ELSE Len(row) = t.ncols
Fixed(t, row) == IF t.ncols = -1 THEN Len(row) ELSE t.ncols

FSetHeader(t, row) == IF Accepts(t, row) THEN Res([t EXCEPT !.ncols = Fixed(t, row), !.hdr = row], "") ELSE Res(t, "ValueError")
FAddRow(t, row) == IF Accepts(t, row) THEN Res([t EXCEPT !.ncols = Fixed(t, row), !.rows = Append(@, row)], "")
                   ELSE Res(t, "ValueError")
\* set_rows empties the body first and then adds row by row: a rejected row leaves the rows added before it
RECURSIVE AddAll(_, _)
AddAll(t, rws) == IF rws = <<>> THEN Res(t, "")
                  ELSE LET r == FAddRow(t, Head(rws)) IN IF r.err # "" THEN r ELSE AddAll(r.t, Tail(rws))
FSetRows(t, rws) == AddAll([t EXCEPT !.rows = <<>>], rws)
FAddRows(t, rws) == AddAll(t, rws)
\* the style object of the table is customised between calls: style.set_column_alignment(col, a)
FAlign(t, col, a) == Res([t EXCEPT !.calls = Append(@, <<col, a>>)], "")
\* set_row(index, row): Python index (0-based, negative from the end); the length is compared with the fixed
\* number of columns (a table without columns rejects every row)
FSetRow(t, idx, row) ==
  LET pos == IF idx >= 0 THEN idx + 1 ELSE Len(t.rows) + idx + 1
  IN IF t.ncols = -1 \/ Len(row) # t.ncols THEN Res(t, "ValueError")
     ELSE IF pos < 1 \/ pos > Len(t.rows) THEN Res(t, "IndexError")
     ELSE Res([t EXCEPT !.rows[pos] = row], "")

\* every row and the header have the fixed number of cells
Consistent(t) == /\ (t.hdr # <<>> => Len(t.hdr) = t.ncols)
                 /\ (t.rows # <<>> => t.ncols >= 0)
                 /\ \A r \in 1..Len(t.rows) : Len(t.rows[r]) = t.ncols
\* what a render has to show: header row first (nothing is drawn while the body is empty)
Shows(t) == t.rows # <<>> /\ t.ncols >= 1
ShownRows(t) == (IF t.hdr # <<>> THEN <<t.hdr>> ELSE <<>>) \o t.rows
=============================================================================
