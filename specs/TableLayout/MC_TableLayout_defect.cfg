SPECIFICATION Spec
CONSTANTS
  Repaired = FALSE
  NColsSet = {1, 2}
  NRowsSet = {1}
  HdrSet = {FALSE}
  StyleSet = {"ascii", "borderless", "compact"}
  AvailSet <- A2to12
  IndSet = {0}
  AlignMode = 0
  DupMode = FALSE
  Pool <- PoolMid
INVARIANT TypeOK
INVARIANT InvSucceeds
INVARIANT InvFits
INVARIANT InvRectangle
INVARIANT InvAligned
INVARIANT InvTextKept
INVARIANT WidthBudget
