#!/bin/sh
# tools/try_mutant.sh <patch.diff> <tier> <id>...   applies the patch to /repo, runs the checks, always reverts
P="$1"; TIER="$2"; shift 2
cd /repo || exit 2
if ! git diff --quiet; then echo "/repo has uncommitted changes"; exit 2; fi
git apply "$P" || { echo "patch does not apply"; exit 2; }
trap 'git -C /repo checkout -- . ' EXIT INT TERM
for id in "$@"; do
  cd /verif && ./check "$id" --tier "$TIER" > /tmp/try_mutant.$$ 2>&1; rc=$?
  tail -6 /tmp/try_mutant.$$; rm -f /tmp/try_mutant.$$
  echo "EXIT[$id]=$rc"
done
