#!/bin/sh
# tools/try_mutant.sh <patch.diff> <tier> <id>...   applies the patch in a scratch worktree of /repo HEAD (so that
# builders / checks running against /repo are not disturbed), runs the checks with VERIF_REPO_SRC, removes the worktree.
P="$1"; TIER="$2"; shift 2
W=/tmp/trym_$$
git -C /repo worktree add -q "$W" HEAD || exit 2
trap 'git -C /repo worktree remove --force '"$W"' >/dev/null 2>&1' EXIT INT TERM
git -C "$W" apply "$P" || { echo "patch does not apply"; exit 2; }
for id in "$@"; do
  cd /verif && VERIF_REPO_SRC="$W/src" ./check "$id" --tier "$TIER" > /tmp/try_mutant.$$ 2>&1; rc=$?
  tail -6 /tmp/try_mutant.$$; rm -f /tmp/try_mutant.$$
  echo "EXIT[$id]=$rc"
done
