#!/bin/sh
# Runs the repository's pinned suite with every verification guard off; prints the summary line.
# Expected on a healthy tree: 396 passed, 1 failed (tests.io.output_stream...test_supports_utf8_with_encoding is in BASELINE always_fail)
unset CLIKIT_VERIF
cd /repo && /venv/bin/python -m pytest -ra -q -p no:cacheprovider --timeout=900 --continue-on-collection-errors "$@" 2>&1 | tail -4
