#!/usr/bin/env python3
"""Prints the prompt given to an independent sub-agent that seeds a property-breaking change.
Only the property text and a scratch worktree are given - nothing from /verif."""
import json
import sys

pid = sys.argv[1]
wt = sys.argv[2]
p = [json.loads(l) for l in open("/verif/properties.jsonl") if json.loads(l)["id"] == pid][0]
print(f"""You are testing how well an (undisclosed) verification setup for the Python library sdispater/clikit detects regressions.
You have your own scratch git worktree of the library at {wt} (source in {wt}/src/clikit, tests in {wt}/tests).
Work ONLY inside {wt}; never touch /repo or /verif and do not read /verif.

Run Python as:   cd {wt} && PYTHONPATH={wt}/src /venv/bin/python ...
Run the test suite as:   cd {wt} && PYTHONPATH={wt}/src /venv/bin/python -m pytest -q -p no:cacheprovider -x --deselect tests/io/output_stream/test_stream_output_stream.py::test_supports_utf8_with_encoding
(396 tests pass on the unchanged tree; that one deselected test fails independently of you. There is no network.)
Wrap anything that could loop forever in `timeout 60`.

The semantic property under study ({pid}: {p['title']}):

  {p['statement']}

  Quantified over: {p['quantifier']['text']}

Your job: produce TWO different, independent, realistic source changes to clikit (the kind of slip a maintainer could make in a refactoring,
optimisation or feature commit) that each BREAK this property while the library still imports and the existing test suite still passes
completely. Prefer changes that need something specific to manifest - a particular multi-step sequence of operations, an unusual but legal
input, a particular interleaving/timing, or two code sites that each look fine alone - rather than something any ordinary use would expose
at once. Do not add new files to the library and do not change tests. Keep each change small (a few lines). The two changes should be in
different code locations / of different character.

For each change X in (A, B) deliver, in {wt}/_mutants/ :
  - X.diff      : `git diff` of ONLY that change against the worktree HEAD (so that `git apply X.diff` on a clean tree reproduces it)
  - X_demo.py   : a small standalone program (run with the PYTHONPATH line above) that exits 0 on the unchanged tree and exits 1
                  (printing what went wrong) with the change applied - it demonstrates the violated property through the public API
  - X.md        : 5-10 lines: what the change is, which clause of the property it breaks, what is needed for it to manifest
Verify yourself, for each change separately, starting from a clean tree (`git checkout -- src`): (1) demo exits 0 without the change,
(2) with the change applied the full test suite passes, (3) with the change applied the demo exits 1. Leave the worktree's src clean at
the end (`git checkout -- src`), keeping only the _mutants directory. Finally report, for each change, the three verification results.""")
