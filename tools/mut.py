#!/usr/bin/env python3
"""tools/mut.py <file under the repo> <old> <new> <tier> <id>...  : textual mutation in a scratch worktree of /repo HEAD,
runs the repository suite and the checks there (VERIF_REPO_SRC), removes the worktree."""
import os
import subprocess
import sys

f, old, new, tier = sys.argv[1:5]
ids = sys.argv[5:]
W = "/tmp/mutpy_%d" % os.getpid()
subprocess.run(["git", "-C", "/repo", "worktree", "add", "-q", W, "HEAD"], check=True)
try:
    p = os.path.join(W, f)
    s = open(p).read()
    if s.count(old) < 1:
        sys.exit("pattern not found")
    open(p, "w").write(s.replace(old, new, 1))
    t = subprocess.run("cd %s && PYTHONPATH=%s/src /venv/bin/python -m pytest -q -x -p no:cacheprovider --deselect tests/io/output_stream/test_stream_output_stream.py::test_supports_utf8_with_encoding 2>&1 | tail -1" % (W, W), shell=True, capture_output=True, text=True)
    print("suite:", t.stdout.strip())
    env = dict(os.environ, VERIF_REPO_SRC=W + "/src")
    for i in ids:
        r = subprocess.run(["/verif/check", i, "--tier", tier], capture_output=True, text=True, cwd="/verif", env=env)
        print("\n".join(r.stdout.strip().splitlines()[-4:]))
        print("EXIT[%s]=%d" % (i, r.returncode))
finally:
    subprocess.run(["git", "-C", "/repo", "worktree", "remove", "--force", W])
