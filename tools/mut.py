#!/usr/bin/env python3
"""tools/mut.py <file under /repo> <old> <new> <tier> <id>...  : in-place textual mutation of /repo, run checks, always revert."""
import subprocess
import sys

f, old, new, tier = sys.argv[1:5]
ids = sys.argv[5:]
if subprocess.run(["git", "-C", "/repo", "diff", "--quiet"]).returncode != 0:
    sys.exit("/repo has uncommitted changes")
p = "/repo/" + f
s = open(p).read()
if s.count(old) < 1:
    sys.exit("pattern not found")
open(p, "w").write(s.replace(old, new, 1))
try:
    t = subprocess.run("cd /repo && /venv/bin/python -m pytest -q -x -p no:cacheprovider --deselect tests/io/output_stream/test_stream_output_stream.py::test_supports_utf8_with_encoding 2>&1 | tail -1", shell=True, capture_output=True, text=True)
    print("suite:", t.stdout.strip())
    for i in ids:
        r = subprocess.run(["/verif/check", i, "--tier", tier], capture_output=True, text=True, cwd="/verif")
        print("\n".join(r.stdout.strip().splitlines()[-4:]))
        print("EXIT[%s]=%d" % (i, r.returncode))
finally:
    subprocess.run(["git", "-C", "/repo", "checkout", "--", f])
