#!/bin/sh
# tools/run_all.sh [quick|thorough] : every registered check on /repo as it is; refreshes evidence/*.json
TIER="${1:-quick}"
cd /verif
for id in $(python3 -c "import json;print(' '.join(c['property_id'] for c in json.load(open('MANIFEST.json'))['checks']))"); do
  s=$(date +%s); ./check "$id" --tier "$TIER" > /tmp/run_all_$id.log 2>&1; rc=$?
  echo "$id exit=$rc $(( $(date +%s) - s ))s  $(grep -E 'VIOLATION|KNOWN-FINDING|MACHINERY|DRIFT' /tmp/run_all_$id.log | cut -c1-90 | head -3 | tr '\n' '|')"
done
