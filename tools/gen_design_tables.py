#!/usr/bin/env python3
"""Regenerates the generated tables of DESIGN.md section 9 (between the GENERATED markers) from known_findings.json,
seeded/*/meta.json and MANIFEST.json."""
import glob
import json
import os
import re

H = os.path.dirname(os.path.dirname(os.path.abspath(__file__)))
kf = json.load(open(os.path.join(H, "known_findings.json")))["findings"]
out = []
out.append("#### Table 9-A. Genuine defects of the pinned tree found by the checks\n")
out.append("| property | status | repo commit | clause / key | what failed |")
out.append("|---|---|---|---|---|")
for f in sorted(kf, key=lambda x: x["property"]):
    out.append("| %s | %s | %s | `%s` / `%s` | %s |" % (f["property"], f["status"], f.get("commit", "-"), f.get("clause", ""), f.get("key", ""), f["what"].replace("|", "\\|")))
out.append("")
out.append("#### Table 9-B. Seeded changes (`/verif/seeded/<id>/`) and the checks that catch them (see §9.4)\n")
out.append("| id | property | what it needs to manifest | detected by |")
out.append("|---|---|---|---|")
for d in sorted(glob.glob(os.path.join(H, "seeded", "*"))):
    mp = os.path.join(d, "meta.json")
    if not os.path.exists(mp):
        continue
    m = json.load(open(mp))
    out.append("| %s | %s | %s | %s |" % (os.path.basename(d), m.get("property"), str(m.get("needs", "")).replace("|", "\\|"), str(m.get("detected_by", "")).replace("|", "\\|")))
out.append("")
p = os.path.join(H, "DESIGN.md")
s = open(p).read()
a, b = "<!-- GENERATED:BEGIN -->", "<!-- GENERATED:END -->"
if a in s:
    s = s[: s.index(a) + len(a)] + "\n" + "\n".join(out) + "\n" + s[s.index(b):]
    open(p, "w").write(s)
    print("tables regenerated:", len(kf), "findings")
else:
    print("markers not found")
