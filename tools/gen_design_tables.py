#!/usr/bin/env python3
"""Regenerates the generated tables of DESIGN.md section 9 (between the GENERATED markers) from known_findings.json,
seeded/*/meta.json and MANIFEST.json."""
import glob
import json
import os
import re

H = os.path.dirname(os.path.dirname(os.path.abspath(__file__)))
kf = json.load(open(os.path.join(H, "known_findings.json")))["findings"]
out = []
out.append("#### Table 9-A. Genuine defects of the pinned tree found by the checks\n")
out.append("| property | status | repo commit | clause / key | what failed |")
out.append("|---|---|---|---|---|")
for f in sorted(kf, key=lambda x: x["property"]):
    out.append("| %s | %s | %s | `%s` / `%s` | %s |" % (f["property"], f["status"], f.get("commit", "-"), f.get("clause", ""), f.get("key", ""), f["what"].replace("|", "\\|")))
out.append("")
out.append("#### Table 9-B. Seeded changes (`/verif/seeded/<id>/`) and the checks that catch them (see §9.4)\n")
metas = [json.load(open(os.path.join(d, "meta.json"))) for d in sorted(glob.glob(os.path.join(H, "seeded", "*"))) if os.path.exists(os.path.join(d, "meta.json"))]
n = len(metas)
late = sum(1 for m in metas if "initially" in str(m.get("detected_by", "")).lower() or "first version" in str(m.get("detected_by", "")).lower())
pend = sum(1 for m in metas if "pending" in str(m.get("detected_by", "")).lower())
other = sum(1 for m in metas if "misses it" in str(m.get("detected_by", "")).lower() and "initially" not in str(m.get("detected_by", "")).lower())
out.append("%d seeded changes confirmed; %d were caught by the quick tier of their own check as it stood, %d only by the check of a neighbouring property "
           "(named in the row), %d were missed at first and are caught after the strengthening described in the row, %d still pending.\n"
           % (n, n - late - pend - other, other, late - pend if late >= pend else late, pend))
out.append("| id | property | what it needs to manifest | detected by |")
out.append("|---|---|---|---|")
for d in sorted(glob.glob(os.path.join(H, "seeded", "*"))):
    mp = os.path.join(d, "meta.json")
    if not os.path.exists(mp):
        continue
    m = json.load(open(mp))
    out.append("| %s | %s | %s | %s |" % (os.path.basename(d), m.get("property"), str(m.get("needs", "")).replace("|", "\\|"), str(m.get("detected_by", "")).replace("|", "\\|")))
out.append("")
p = os.path.join(H, "DESIGN.md")
s = open(p).read()
a, b = "<!-- GENERATED:BEGIN -->", "<!-- GENERATED:END -->"
if a in s:
    s = s[: s.index(a) + len(a)] + "\n" + "\n".join(out) + "\n" + s[s.index(b):]
    open(p, "w").write(s)
    print("tables regenerated:", len(kf), "findings")
else:
    print("markers not found")
