#!/usr/bin/env python3
"""Regenerates the generated tables of DESIGN.md section 9 (between the GENERATED markers) from known_findings.json,
seeded/*/meta.json and MANIFEST.json."""
import glob
import json
import os
import re

H = os.path.dirname(os.path.dirname(os.path.abspath(__file__)))
kf = json.load(open(os.path.join(H, "known_findings.json")))["findings"]
out = []
out.append("#### Table 9-A. Genuine defects of the pinned tree found by the checks\n")
out.append("| property | status | repo commit | clause / key | what failed |")
out.append("|---|---|---|---|---|")
for f in sorted(kf, key=lambda x: x["property"]):
    out.append("| %s | %s | %s | `%s` / `%s` | %s |" % (f["property"], f["status"], f.get("commit", "-"), f.get("clause", ""), f.get("key", ""), f["what"].replace("|", "\\|")))
out.append("")
out.append("#### Table 9-B. Seeded changes (`/verif/seeded/<id>/`) and the checks that catch them (see §9.4)\n")
metas = [json.load(open(os.path.join(d, "meta.json"))) for d in sorted(glob.glob(os.path.join(H, "seeded", "*"))) if os.path.exists(os.path.join(d, "meta.json"))]
n = len(metas)
def cls(m):
    t = str(m.get("detected_by", "")).lower()
    if "pending" in t:
        return "pending"
    if "outside the statement" in t:
        return "outside"
    if t.startswith("not closed"):
        return "open"
    if "initially" in t or "first version" in t or "missed at first" in t:
        return "late"
    if "misses it" in t or "neighbour" in t:
        return "other"
    return "direct"


cnt = {}
for m in metas:
    cnt[cls(m)] = cnt.get(cls(m), 0) + 1
out.append("%d seeded changes confirmed; %d were caught by the quick tier of their own check as it stood, %d only by the check of a neighbouring property "
           "(named in the row), %d were missed at first and are caught after the strengthening described in the row, %d turned out to lie outside "
           "the statement they were aimed at (reported as DRIFT, no VIOLATION due), %d are not caught (the row says why), %d still pending.\n"
           % (n, cnt.get("direct", 0), cnt.get("other", 0), cnt.get("late", 0), cnt.get("outside", 0), cnt.get("open", 0), cnt.get("pending", 0)))
out.append("| id | property | what it needs to manifest | detected by |")
out.append("|---|---|---|---|")
for d in sorted(glob.glob(os.path.join(H, "seeded", "*"))):
    mp = os.path.join(d, "meta.json")
    if not os.path.exists(mp):
        continue
    m = json.load(open(mp))
    out.append("| %s | %s | %s | %s |" % (os.path.basename(d), m.get("property"), str(m.get("needs", "")).replace("|", "\\|"), str(m.get("detected_by", "")).replace("|", "\\|")))
out.append("")
p = os.path.join(H, "DESIGN.md")
s = open(p).read()
a, b = "<!-- GENERATED:BEGIN -->", "<!-- GENERATED:END -->"
if a in s:
    s = s[: s.index(a) + len(a)] + "\n" + "\n".join(out) + "\n" + s[s.index(b):]
    open(p, "w").write(s)
    print("tables regenerated:", len(kf), "findings")
else:
    print("markers not found")
