#!/bin/sh
# tools/confirm_mutant.sh <agent worktree> <A|B> <property id>
# Confirms a seeded change in a fresh scratch worktree: demo passes without it, suite passes with it, demo fails with it.
# On success stores it as /verif/seeded/<pid>-<X>/ (patch.diff, demo.py, notes.md, meta.json skeleton).
WT="$1"; X="$2"; PID="$3"
S=/tmp/confirm_$$
git -C /repo worktree add -q "$S" HEAD || exit 2
trap 'git -C /repo worktree remove --force '"$S"' >/dev/null 2>&1' EXIT INT TERM
cd "$S" || exit 2
run() { PYTHONPATH="$S/src" timeout 120 /venv/bin/python "$@"; }
run "$WT/_mutants/${X}_demo.py" >/tmp/confirm_out_$$ 2>&1; d0=$?
git apply "$WT/_mutants/$X.diff" || { echo "patch does not apply to current HEAD"; exit 2; }
PYTHONPATH="$S/src" timeout 600 /venv/bin/python -m pytest -q -p no:cacheprovider --deselect tests/io/output_stream/test_stream_output_stream.py::test_supports_utf8_with_encoding >/tmp/confirm_t_$$ 2>&1; t=$?
run "$WT/_mutants/${X}_demo.py" >/tmp/confirm_out1_$$ 2>&1; d1=$?
echo "demo without change: exit $d0 | suite with change: exit $t ($(tail -1 /tmp/confirm_t_$$)) | demo with change: exit $d1"
tail -3 /tmp/confirm_out1_$$
if [ $d0 -eq 0 ] && [ $t -eq 0 ] && [ $d1 -ne 0 ]; then
  D=/verif/seeded/$PID-$X; while [ -f "$D/patch.diff" ] && ! cmp -s "$D/patch.diff" "$WT/_mutants/$X.diff"; do D="${D}x"; done; mkdir -p "$D"
  cp "$WT/_mutants/$X.diff" "$D/patch.diff"; cp "$WT/_mutants/${X}_demo.py" "$D/demo.py"; cp "$WT/_mutants/$X.md" "$D/notes.md"
  [ -f "$D/meta.json" ] || cat > "$D/meta.json" <<EOM
{
 "property": "$PID",
 "base_commit": "$(git -C /repo rev-parse --short HEAD)",
 "needs": "see notes.md",
 "confirmed": {"demo_without_change_exit": $d0, "suite_with_change": "$(tail -1 /tmp/confirm_t_$$)", "demo_with_change_exit": $d1},
 "ran": "tools/confirm_mutant.sh (fresh scratch worktree of /repo HEAD: demo, git apply, full pytest suite, demo)",
 "detected_by": "TO BE FILLED"
}
EOM
  echo "CONFIRMED -> $D"
else
  echo "NOT CONFIRMED"
fi
rm -f /tmp/confirm_out_$$ /tmp/confirm_t_$$ /tmp/confirm_out1_$$
