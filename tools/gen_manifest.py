#!/usr/bin/env python3
"""Single source for MANIFEST.json: edit CHECKS / PENDING here, run, commit."""
import json
import os

HERE = os.path.dirname(os.path.dirname(os.path.abspath(__file__)))

BASELINE = "cd /repo && env -u CLIKIT_VERIF /venv/bin/python -m pytest -ra -q -p no:cacheprovider --timeout=900 --continue-on-collection-errors"

# id -> (modules, technique, level text, level note, design ref)
CHECKS = {}
PENDING = {}


def check(pid, modules, technique, text, note, ref):
    CHECKS[pid] = dict(modules=modules, technique=technique, text=text, note=note, ref=ref)


exec(open(os.path.join(HERE, "tools", "manifest_entries.py")).read())

props = [json.loads(l)["id"] for l in open(os.path.join(HERE, "properties.jsonl"))]
checks = []
for pid in props:
    if pid not in CHECKS:
        continue
    c = CHECKS[pid]
    checks.append(
        {
            "property_id": pid,
            "quick_cmd": "./check %s --tier quick" % pid,
            "thorough_cmd": "./check %s --tier thorough" % pid,
            "evidence_file": "/verif/evidence/%s.json" % pid,
            "replay_cmd_template": "./check %s --replay {path}" % pid,
            "engine": "tlc-mbt",
            "level_claimed": {"category": "model_checking", "text": c["text"], "design_ref": c["ref"]},
            "level_note": c["note"],
            "technique": c["technique"],
        }
    )
na = [{"property_id": p, "reason": PENDING.get(p, "check not built yet (see DESIGN.md section 2 for the planned model)")} for p in props if p not in CHECKS]
m = {
    "version": 1,
    "setup_cmd": "./setup.sh",
    "hooks": {
        "guard": "CLIKIT_VERIF",
        "enable": "no source hook is compiled in: the harness substitutes module attributes (time, threading, COLUMNS) from outside; CLIKIT_VERIF is reserved",
        "baseline_off_cmd": BASELINE,
        "source_commits": [],
        "add_only": True,
    },
    "engines": [
        {
            "name": "tlc-mbt",
            "path": "/verif/harness",
            "serves_properties": sorted(CHECKS),
            "kind_free_text": "TLA+ specifications (specs/<Module>) checked by TLC; TLC-enumerated behaviours replayed on the real classes (spec->code) and recorded executions validated by <Module>Trace.tla (code->spec)",
        }
    ],
    "checks": checks,
    "not_applicable": na,
    "notes": "Entry point ./check <id> --tier quick|thorough. Verdicts come from TLC (invariants, trace-spec clauses); Python drives the code and compares JSON values. known_findings.json lists repaired / open genuine defects.",
}
json.dump(m, open(os.path.join(HERE, "MANIFEST.json"), "w"), indent=1)
print("checks:", [c["property_id"] for c in checks], "pending:", len(na))
