#!/bin/sh
# debugging helper: tools/tlc.sh <cfg> <module> [extra tlc args]   (run inside the spec directory)
CFG="$1"; MOD="$2"; shift 2
M=$(mktemp -d /tmp/tlcdbg.XXXX)
java -XX:+UseParallelGC -Xmx8g -DTLA-Library=/verif/specs/common -cp /opt/veriftools/tla/tla2tools.jar:/opt/veriftools/tla/CommunityModules-deps.jar tlc2.TLC -noGenerateSpecTE -metadir "$M" -deadlock -workers ${WORKERS:-4} -config "$CFG" "$@" "$MOD" 2>&1 | grep -v '^"'
rm -rf "$M"
