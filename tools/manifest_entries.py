check(
    "C08",
    ["Tokenizer", "TokenizerTrace"],
    "TLA+ model of the tokenizer checked exhaustively by TLC (all strings <= N, all quoted token lists); every TLC behaviour replayed on TokenParser/StringArgs/ArgvArgs; recorded random calls validated by TokenizerTrace.tla",
    "TLC proves totality, termination (Progress), unquoted-split and quoting round trip on the scanner model for all strings up to length 5 (quick) / 7 (thorough) and all quoted lists within bounds; the real tokenizer is shown to follow the model on every one of those inputs (exact equality) and on seeded random larger inputs via trace validation (incl. shell punctuation, eleven whitespace characters, long plain runs and quotes alternating up to 1100 / 2500 levels deep), where every P-clause is evaluated by TLC on the observed result; string and argv form are compared through parser, resolver and full application runs, the caller's argv list handed in twice.",
    "Trusted: TLC/SANY, CommunityModules Json/IOUtils, the 40-line observe() projection. Whitespace SP/TAB/VT (exhaustive) and eleven Unicode whitespace characters (traces); non-ASCII is one width-1 symbol; beyond the bounds the claim rests on the random traces only.",
    "DESIGN.md#C08",
)
check(
    "C12",
    ["Dispatcher", "DispatcherTrace"],
    "TLA+ model of EventDispatcher (P: stable priority order cut at the first stopping listener; A: priority buckets + sorted-list cache) checked by TLC; all operation sequences up to Depth and simulated longer ones replayed on the real dispatcher; random recorded sequences validated by DispatcherTrace.tla",
    "TLC checks on every reachable state of the model (<= 3/5 listeners, 3 events, 3 priorities) that what a dispatch calls equals the stable priority order of the registrations so far and that a warm cache is never stale; every operation sequence of length 4 (quick) / 5 (thorough) over add/dispatch/get/getall and simulated sequences of length 14 over all operations are replayed on the real EventDispatcher with step-by-step equality; 600/8000 random sequences of up to 40 operations (a quarter through ApplicationConfig.add_event_listener; payloads: none, Event, ConfigEvent, PreResolveEvent, PreHandleEvent; listeners that register listeners) are decided by TLC with the P-clause evaluated on the observed calls; an exception out of any step is an observation (P.no_exception).",
    "Trusted: TLC, Json module, the Driver projection (listener identity -> registration index). Each registration uses a distinct callable; listeners registered by listeners do not register further ones. Query results (get_listeners, has_listeners, get_listener_priority) are A-clauses: a deviation there is reported as DRIFT, not as a violation, because the statement only speaks about dispatch.",
    "DESIGN.md#C12",
)
check(
    "C07",
    ["Elements", "ElementsTrace"],
    "TLA+ transcription of the flag/name/default rules (P) and the constructors' step order (A) checked by TLC over every flag word; every case replayed on Option/CommandOption/Argument; random conversions and names decided by ElementsTrace.tla",
    "Exhaustive over the stated quantifier: all 2^13 option and 2^11 argument flag words (incl. two/three undefined bits) x short-name presence x default kind (55 312 constructions), all 12 441 role x prefix x names up to length 4, and 2 232 conversion cases are enumerated by TLC, which checks accepts-exactly-valid, consistency of the constructed object and that undefined bits are ignored on the model; the real constructors/parse methods reproduce the model's answer on every one (the sibling class sees each flag word first; every accepted object has its default withdrawn and given again: P.ctor.reset). 1 500 / 20 000 random big integers, dyadic float literals (exact rational expected value computed from the text), arbitrary short texts and longer names are decided by TLC on the observed result.",
    "Trusted: TLC + Bitwise/Json modules, observe_* projections. Float round trip only for dyadic literals below 2^30 (no reals in TLC; CPython float() fidelity is outside clikit). Boolean text form = 'true'/'false'. A regex '$' accepting a trailing newline in names is outside the explored alphabets.",
    "DESIGN.md#C07",
)
check(
    "C06",
    ["FormatBuilder", "FormatBuilderTrace"],
    "TLA+ model of builder + format as a chain of levels (P: queries from listed elements, Unique / multi-last / no-required-after-optional; A: the builder's flags and accept/reject decisions) checked by TLC; all operation sequences up to Depth and simulated longer ones replayed on ArgsFormatBuilder/ArgsFormat, the full query table after each step decided by FormatBuilderTrace.tla",
    "TLC checks the consistency invariants and 'a rejected addition changes nothing' on the complete state space of the model with one base level, and enumerates all 25^3 (quick) / 25^4 (thorough) operation sequences plus simulated ones of length 9 on two base levels; for each the real builder and builder.format are queried exhaustively (every name/position of the pool, both include_base values, all predicates and listings) after every step, and TLC decides that (a) what the code accepted forms a consistent format, (b) every answer equals the one implied by the listed elements, (c) format == builder, (d) a rejection left the table unchanged.",
    "Trusted: TLC, Json, the table() projection and the Python mirror of the element pool (FBPools.tla). Pool: 4 options, 3 command options (with aliases), 6 arguments, 2 command names, 5 element lists. Order of option listings and repetition of aliased command options are A-clauses (DRIFT only).",
    "DESIGN.md#C06",
)
check(
    "C01",
    ["ArgsParser", "ArgsParserTrace"],
    "TLA+ model of DefaultArgsParser (A: token loop, command-name re-alignment, validation, typed store) with the spelling relation and Intended() as P-layer; TLC enumerates every spelling/interleaving (RoundTrip invariant); every line replayed on the real parser; random formats/recipes decided by ArgsParserTrace.tla",
    "TLC builds every well-formed recipe up to 3 (quick) / 4 (thorough) items - all option spellings, grouped shorts, options anywhere among names and positionals, names by name/alias/omitted, '--' tails - for 6 formats x strict/lenient and proves on the parser model that the result equals Intended(assignment); the real parser reproduces the model's result on every emitted line (formats with and without base), including access by position, short name and the dictionaries; simulated recipes up to 7 items and 700/15000 random formats (0-5 options, 0-4 arguments, 0-2 names) x random recipes are decided by TLC, which itself renders the recipe, decides WellFormed and computes Intended.",
    "Trusted: TLC, Json, argslib projection (pv/project_args/build_format), the Python render() only produces tokens that TLC re-renders (H.recipe.render). What counts as a spelling is ArgsSpell.WellFormed (see assumptions in evidence). Types str/int/bool; float conversion outside.",
    "DESIGN.md#C01",
)
check(
    "C02",
    ["ArgsParser", "ArgsParserTrace"],
    "Same ArgsParser model; TLC enumerates all token lists up to MaxLen over an adversarial alphabet x 7 formats, strict then lenient on one parser object (invariants Allowed, LenientTotal, StrictOkImpliesLenientSame); every outcome replayed on the real parser; random soups decided by ArgsParserTrace.tla",
    "Exhaustive within bounds: all 20 440 (quick, length <= 3) / 551 881 (thorough, length <= 4) token lists over 27 adversarial tokens x 7 formats x 2 modes are parsed by the model, TLC checking that only documented errors occur, lenient never raises a parse error and agrees with strict whenever strict succeeds; the real parser reproduces the model's outcome (error class and full result) on every one, with and without a base format; faults readable off the line alone (unknown option, value for a flag, required value left out) are P-clauses on every parse and TLC confirms on every soup that the model rejects such lines too (MalformedRejected); random soups up to length 6 and eight kinds of single-fault mutations of well-formed lines are decided by TLC on the observed outcomes of both modes; the same format declared through command configurations and parsed with Command.parse(raw, True/False/nothing) must agree (P.route.command).",
    "Trusted: TLC, Json, argslib. Formats <= 1 command name, <= 2 arguments, <= 2 options. The exact error class for arbitrary soup is an A-clause (DRIFT), only membership in the documented set is a P-clause; single-fault mutations with a fixed expected class are validated in the thorough tier.",
    "DESIGN.md#C02",
)
check(
    "C18",
    ["Dialogue", "DialogueTrace", "Streams"],
    "TLA+ model of Question/ChoiceQuestion/ConfirmationQuestion dialogues (A: ask -> prompt -> read -> validate -> retry; P: operators over observations) checked by TLC incl. Termination under weak fairness; every TLC dialogue replayed on the real classes under a read/write budget; random multi-question sessions decided by DialogueTrace.tla",
    "TLC enumerates every dialogue of the bounded family (choice lists <= 2-3 entries incl. numeric-looking/spaced/case-differing ones, single/multi-select, defaults, attempt limits {unlimited,1,2,3}, scripts <= 2-3 lines over an adversarial answer alphabet, each ending in end-of-input; plain questions with validator; confirmations over 3 patterns x 14 answers; non-interactive) and checks the P-invariants plus Termination (liveness, weak fairness, no state constraint); a deliberately broken variant (RetryOnAbort) must produce the lasso, which guards against a vacuous liveness check; the real classes reproduce each of the 86 892 (quick) / 1.46 M (thorough) behaviours; 2 500 / 40 000 random sessions of 1-4 questions on one input are decided by TLC on the observed outcome, read count, error lines and stream bytes.",
    "Trusted: TLC, Json, the BudgetIn/BudgetOut wrappers (BaseException budgets), observation projection. stty/hidden/autocomplete path not exercised (subprocess stubbed); attempt limit 0 and non-ASCII answers outside. 'one error' = one stderr line in the error style per rejected entry.",
    "DESIGN.md#C18",
)
check(
    "C05",
    ["ArgsParser", "ArgsParserTrace"],
    "Two instances of the ArgsParser model in one TLC state (long-lived parser object vs. fresh one, INSTANCE with variable substitution), invariant SameAsFresh over all request sequences; the variant that keeps the option scratch map must violate it; sequences replayed on one real DefaultArgsParser; random sequences decided by ArgsParserTrace.tla",
    "TLC runs every sequence of 2 (quick) / 3 (thorough) requests out of 54 (3 formats sharing option names x 2 modes x 9 lines, successes and failures mixed) on the long-lived and the fresh parser model and checks equality of outcomes; the model of the pinned defect (options not reset) is required to violate the invariant, which keeps the check from being vacuous; each sequence is replayed on one real parser object and compared request by request with the model, with a fresh real parser, and for untouched inputs (argv list, raw tokens, format listings); 400/8000 random sequences of 1-6 requests over the typed soup formats are decided by TLC.",
    "Trusted: TLC (INSTANCE substitution), argslib.event. 'Fresh parser' = DefaultArgsParser() per request. Command.parse on one Command / raw-args object per format is part of every event (P.route.command); parser reuse through Config.set_args_parser is exercised by C17's application runs.",
    "DESIGN.md#C05",
)
check(
    "C10",
    ["OutputGate", "OutputGateTrace"],
    "TLA+ model of the output gate (P: MayWrite = not quiet and verbosity >= lowest requested level, ClosedSilent / OpenShows / NeverLeaks / Monotone; A: _may_write chain, delegation table, section re-emission) checked by TLC; every entry point found by reflection x quiet x verbosity x flag word x formatter x stream kind called on the real classes; sequences replayed; random sequences decided by OutputGateTrace.tla",
    "Exhaustive over the stated quantifier: every public writing entry point discovered by reflection on IO/BufferedIO/ConsoleIO/NullIO/Output/SectionOutput is called for each of 2 x 4 x 9 configurations on dozens of concrete realizations (formatter x stream kind), TLC deciding reached-the-stream = MayWrite; TLC also checks NeverLeaks and Monotone over all configurations and all operation sequences of length 3 (quick) / 4 (thorough) incl. several sections on one stream; the pinned-tree variant (Repaired = FALSE) must be found faulty by TLC.",
    "Trusted: TLC, the reflection rule (public methods named write*/error*/overwrite/clear or taking flags), recording streams. NullIO().section() and Output(ansi stream, NullFormatter()) are not constructible and reported without verdict.",
    "DESIGN.md#C10",
)
check(
    "C11",
    ["Markup", "OutputGate", "MarkupTrace"],
    "TLA+ models of the tag engine (Markup: P TextOf/Sgr/terminal-side fold; A pastel's tag loop) and of line writers + indentation scopes (OutputLines) checked by TLC; all messages / all 12 800 styles x 3 ways / all scope programs replayed on AnsiFormatter, PlainFormatter, Output, IO, SectionOutput; recorded renderings decided by MarkupTrace.tla / OutputLinesTrace.tla",
    "TLC enumerates every balanced message up to 4 (quick) / 6 (thorough) segments over named, inline and unknown tags, escaped '<', newlines and a non-ASCII stand-in and checks Strip(Ansi) = Plain = TextOf and no escape byte / registered markup in plain output; every style (10 x 10 x 2^7, thorough; a sample in quick) through registration, add_style and per-call style is compared code-by-code with Sgr(style); every nesting (depth <= 3/4) of set/increment indentation scopes at IO and single-output level with normal and exceptional exit is replayed, TLC deciding prefix and restoration; every line-writing method found by reflection must emit text + exactly one newline in ANSI and plain mode.",
    "Trusted: TLC, SGR tokeniser of the driver, reflection rule for line writers. Readings: balanced tags only; raw line writers may indent or not; colour table = 16-colour convention of the backend. Pastel quirks outside the message family are listed in docs/notes_C11.md.",
    "DESIGN.md#C11",
)
check(
    "C14",
    ["TableLayout", "TableLayoutTrace"],
    "TLA+ model of table layout (A: CellWrapper.fit with exact round(), exact textwrap model, BorderUtil drawing; P: succeeds / fits / rectangle / aligned columns / text kept / table unchanged over the drawn text) checked by TLC; every behaviour replayed on Table.render; random tables decided by TableLayoutTrace.tla",
    "TLC renders every table of bounded families through the step machine of CellWrapper.fit (short/long split, proportional distribution with exact rounding, exact textwrap model, BorderUtil drawing) and checks P.succeeds, P.fits, P.rectangle, P.aligned and P.textkept on the drawn text. The families cover 1-3 columns, 1-3 rows, cells of 0-4 words, header or not, the four predefined styles, every available width from one character per column upwards, identical values repeated across rows and columns, and alignments set through set_column_alignment in every order. The pinned variant (Repaired = FALSE) must produce the width-0 failure. Every behaviour is replayed on the real Table.render, plain and ANSI, ascii boxes also as solid; routes: rows as lists and tuples, Table() and Table(style), add_row and add_rows, indentation positional or by keyword; the written text is compared character for character (30 220 behaviours quick, 460 323 thorough). A second model, TableObject, covers the table as an object: every sequence of 4 calls (set_header_row, add_row, add_rows, set_row, set_rows, set_column_alignment on its style, render, incl. rejected calls) is run on one real Table with one re-used plain and one re-used ANSI I/O, successive renders alternating narrow and wide terminals, indentations and formatters; every render is decided by TLC against the rows and header the model holds at that moment, and the table and the caller's own row objects must be left unchanged. Random tables up to 6x6 with cells up to 1 500 characters (blank-only cells, embedded line feeds, tagged words, widths 20-200, indentation 0-8) and random histories of 3-13 calls are decided by TLC on the recorded output.",
    "Trusted: TLC; the driver's character projection (a pool of width-1 letters mapped to text classes, rules to codes, escape sequences removed); reading Table._rows / _header_row and the caller's lists for 'unchanged'. Open known finding: a style-tagged cell that has to be wrapped is cut by tag-unaware textwrap. Outside: hyphenated words, tabs, control characters other than LF inside cells (written raw by the library), East-Asian widths, non-string cells and alignments for columns the table does not have (caller errors), the geometry of customised styles (only the four predefined geometries are known to the P-layer), BorderUtil and CellWrapper called directly. For borderless styles a text repeated in several columns can only be counted, not attributed to a column.",
    "DESIGN.md#C14",
)
check(
    "C03",
    ["Resolver", "ResolverTrace", "Config", "Suggest"],
    "TLA+ model of DefaultResolver on command trees (P: Lead / Path / Allowed / OutcomeOK and the alias, trailing-option, separator and hidden laws; A: Leading, Descend per token, Pick first-parsable default, Final) checked by TLC; every tree x line replayed on ConsoleApplication.resolve_command; simulated full-family cases and random trees decided by ResolverTrace.tla",
    "TLC enumerates 288 trees (skeleton of depth 3 with aliases; kinds plain/default/anonymous, enabled/disabled, strict/lenient varied) x every line of a path prefix up to 2 (quick) / 3 (thorough) tokens over names, aliases and an unknown word x 8 suffixes (argument, flag, flag + name, --opt=v + name, '--' tails) and checks that the outcome is the one the statement names plus the metamorphic laws; the real resolver reproduces the model's outcome and per-command parsability on every case (argv and string form alternating); 1500/40000 simulated cases over the full attribute family and 600/12000 random trees (depth <= 3, fan-out <= 3; configured through three equivalent routes; a sub-command named like a global option; one configuration object attached under two parents) with random lines (empty tokens, several option tokens in a row) are decided by TLC on the observed selection. Run with it, DRIFT only: the CommandCollection, the configuration layer (specs/Config) and the did-you-mean suggestions (specs/Suggest).",
    "Trusted: TLC, Json, build_app/observe projection (command identity -> node id, message of CannotResolveCommandException -> undefined token). Sibling names/aliases unique; several default sub-commands: any is allowed; strict commands declare no arguments, lenient ones accept everything.",
    "DESIGN.md#C03",
)
check(
    "C19",
    ["Spinner", "SpinnerTrace"],
    "TLA+ model of ProgressIndicator auto mode as two processes + clock over the shared Terminal model (NoMix, Joined, EndFrame, Terminates under weak fairness; Locked = FALSE must violate NoMix) and of manual mode; TLC-generated and random schedules enforced step by step on the real threads by a baton scheduler (shims for threading/time, yielding stream) and validated by SpinnerTrace.tla",
    "TLC explores every interleaving of the spinner thread with the main thread's set_message / work / raise / exit at the granularity of single stream writes, sleeps, Event and Lock operations for all small bodies (86 k states quick, 1.08 M thorough) including liveness (the with-block always joins the spinner); each of the 3 213 (quick) interleavings, simulated and random schedules is enforced on the real ProgressIndicator.auto() with a virtual clock - no wall-clock anywhere - and the observed writes are applied to the Terminal model by TLC, which evaluates NoMix / EndFrame / Joined; manual mode over all call sequences and clock advances.",
    "Trusted: TLC, harness/engine/baton.py (scheduler; a stuck thread is a MachineryError, never a verdict), Terminal.tla. Pre-emption finer than a stream write / sleep is outside the statement's granularity.",
    "DESIGN.md#C19",
)
check(
    "C20",
    ["ErrorReport", "ErrorReportTrace"],
    "TLA+ models of the trace renderer (mode selection, frame filter, snippet window, split_to_lines as a fold over the token stream) checked by TLC; every model input replayed on ExceptionTrace/Highlighter; real exceptions from generated, exec'd and file-less code decided by ErrorReportTrace.tla",
    "TLC enumerates the mode x verbosity x frame-ignore masks and snippet windows (MC_Report) and 1 110 / 11 110 token programs through the line-assembly fold (MC_Assemble), checking consecutive numbering, exactly one marker on the failing line and verbatim single-line-token rows; the real classes reproduce all of them; 1 500 / 12 000 real exceptions (generated modules with the failing statement at varying positions, multi-line statements/strings, comments, tabs, markup-like text; exec'd and file-less code; 27 adversarial messages x 8 exception kinds; causes; recursion to depth 60) x 4 verbosities x UTF-8 on/off x simple/full are rendered and decided by TLC.",
    "Trusted: TLC, Python's tokenize for the token stream shipped with small sources. The highlighter over a corpus of real files is observation-level (row ids only). crashtest's folding of repeated frames and solution rendering are not modelled.",
    "DESIGN.md#C20",
)
check(
    "C17",
    ["RunHistory", "Styles", "RunHistoryTrace"],
    "TLA+ models of what survives inside the process: (a) RunHistory - the per-command leniency override across runs of one application (SameAsFresh, NoResidue; the pinned variant must violate); (b) Styles - the heap of shared BorderStyle prototypes / TableStyle objects and the trace snippet cache (NoAliasing, RenderPure); TLC-enumerated run sequences and style histories replayed on the real objects and decided by RunHistoryTrace.tla / StylesTrace.tla against fresh applications / a fresh process",
    "(a) every sequence of 2 (quick) / 3 (thorough) line kinds out of 20 (valid, by alias, surplus arguments, unknown option, help X, X --help, failing help requests, version, undefined command, empty line) is explored on the model and run on ONE real ConsoleApplication, each run compared by TLC with a freshly built application (status, stdout, stderr, handler calls); 150/3000 random sequences of 2-6 lines incl. lines outside the pool. (b) TLC explores the heap model of TableStyle / BorderStyle (lazily created shared prototypes, the factories that overwrite them) over every sequence of 3 operations with the full customisation menu (4 factories, 21 string-valued attributes incl. cell, header and rule styles, set_column_alignment on columns 0-2 in any order, list and default assignment) and of 4 with a reduced one, a further family assigning tagged Style objects whose tags collide (NoAliasing), every pair of renders of 12 component kinds (table, paragraph, paragraph on a formatter that redefines a stock tag, labeled paragraph, a re-used LabelAlignment and BlockLayout, name/version, empty line, application help, command help, two error traces) on 9 I/Os varying UTF-8, ANSI, verbosity, width and indentation, and every triple of renders of one re-used LabelAlignment / BlockLayout at changing indentations (RenderPure); the pinned variants must violate both invariants. Every behaviour is replayed on the real classes with I/Os and formatters re-used within a behaviour; StylesTrace decides P.noalias (an equal own history shows an equal table, also against the history replayed alone in a fresh process; no factory or setter may raise) and P.rerender (equal (component, I/O) shows equal text, equal to what a fresh process shows), also on random mixed sequences of up to 40 operations.",
    "Trusted: TLC, interning of outputs (equal ids <=> equal texts), the fresh-process reference server of c17_styles. Same process and terminal width for shared and fresh runs; every run gets a new StringArgs / ArgvArgs object (re-using one RawArgs object is outside the statement), the caller's argv list object is handed in again whenever its line comes again. A BlockLayout rendered again without being re-filled shows nothing by design and is not judged (re-filled with the same elements it is). Outside: the caller sharing one alignment list or Style object between styles by assignment; a source file changed between two renders of an error trace; equivalence of the factories with hand-built styles.",
    "DESIGN.md#C17",
)
check(
    "C15",
    ["Sections", "SectionsTrace"],
    "TLA+ model of SectionOutput over the shared per-cell Terminal model (P: ScreenMatches - the screen shows exactly the stacked section contents, also for wrapped lines; plain degradation; A: shared newest-first list, _content/_lines counters, pop-and-reprint) checked by TLC; behaviours replayed on real SectionOutputs with COLUMNS fixed, emitted bytes tokenised into terminal ops and folded by TLC in SectionsTrace.tla",
    "TLC explores every operation sequence up to depth 6 (quick) / 7-8 (thorough) over 1-3 sections with create / write_line (1-2 lines) / overwrite / clear() / clear(n) and line lengths below, at and above the terminal width (W = 4, also 7), checking ScreenMatches after every operation on the terminal model; the pinned variant must exhibit the clear(n)-over-a-wrapped-line defect; about 12.6 k (quick) / 112 k (thorough) behaviours are replayed on real section outputs whose bytes are only tokenised by Python and interpreted by the TLA+ terminal; 600 / 6000 random sequences up to length 40 with widths 4, 7, 20.",
    "Trusted: TLC, harness/engine/termbytes.py (tokeniser, no emulation), Terminal.tla as the environment model (unbounded height, LF acts as CR+LF). Section indentation, clear(0) and clear(n) beyond the content are outside.",
    "DESIGN.md#C15",
)
check(
    "C16",
    ["ProgressBar", "ProgressBarTrace"],
    "TLA+ model of ProgressBar in integer milliseconds and exact integer arithmetic over the Terminal model (P: frame truthfulness, bar width, throttle, finish at 100 %, ANSI line = latest frame, plain own-line, quiet silence; A: redraw decision, overwrite padding) checked by TLC; call sequences with clock advances replayed on the real ProgressBar under a virtual clock; recorded runs decided by ProgressBarTrace.tla",
    "TLC explores all sequences of start / advance / set_progress / display / clear / finish with clock advances {0,10,50,200,2000 ms} up to depth 4 (quick) / 6-9 (thorough) for maxima {0,1,3,10}, several bar widths and custom formats on ANSI, plain, section and quiet outputs; 43 k (quick) / 250 k (thorough) behaviours are replayed on the real bar with progress_bar.time replaced by a virtual clock and the emitted bytes folded on the TLA+ terminal; random sequences up to 60 calls incl. sweeps over every step of maxima 50 and 200.",
    "Trusted: TLC, termbytes tokeniser, virtual clock substitution, Terminal.tla. The frame is assumed to fit the terminal width; a multi-line format overwriting the line above its first frame is pinned by the repository's own test and outside the statement.",
    "DESIGN.md#C16",
)
check(
    "C04",
    ["AppRun", "AppRunTrace"],
    "TLA+ step machine of ConsoleApplication.run / Command.handle (CreateIO, PreResolve, Resolve, PreHandle per listener, InvokeHandler, Normalise, Catch, Report, Return) with the environment fixed per behaviour; P: Contained, ZeroIff, Clamped, Reported, Interrupt, CallsOK + termination; every environment run on real applications and decided by AppRunTrace.tla",
    "TLC explores the full product of environments (application kind x catch x verbosity x 7 command lines x pre-resolve listener x pre-handle listener sequences x 18 handler return values x 15 exception kinds: 279 k states quick, 4 M thorough) and checks the six property clauses and termination; 2 312 / 14 592 emitted environments and 1 000 / 20 000 random ones (random messages with tags, causes, exec'd sources) are run on real ConsoleApplications with recording handlers and buffered streams, every run decided by TLC including that the report shows the exception's message (style markup aside).",
    "Trusted: TLC, recording handlers, ShownText.tla (copy of C20's 'markup aside' matcher). SystemExit/GeneratorExit are outside the quantifier; quiet mode, I/O-factory and constructor failures are not in the product. exception_to_exit_code never uses a 'code' attribute (status 1): non-zero is all the statement demands.",
    "DESIGN.md#C04",
)
check(
    "C09",
    ["Switches", "SwitchesTrace"],
    "TLA+ model of the default application configuration's switch handling (A: create_io, help listener on PRE_RESOLVE, version listener on PRE_HANDLE, one Stage per pipeline step; P: quiet silence, verbosity, ANSI on/off, no-interaction, help page of the path's command, version, nothing after '--') checked by TLC; every line built by switch insertion replayed through ConsoleApplication.run; random lines decided by SwitchesTrace.tla",
    "TLC builds lines by actions - every subset, spelling, order and placement of up to 2 (quick) / 3 (thorough) of the 13 switch tokens among the tokens of valid command lines for a fixed application (a command with required argument and valued option, a command with sub-commands incl. a default one, a top-level command, the built-in help), plus look-alikes after '--' - for ok / status-code / raising handlers and three stream kinds; the '--' clause is a relational invariant against the run of the line without the look-alikes; 15 361 (quick) / 235 564 (thorough) runs are replayed through ConsoleApplication.run with recording handlers (tagged lines per verbosity on both streams, a confirmation question, recorded I/O state) and compared; simulated lines with up to 7 switches and 3 000 / 40 000 random lines are decided by TLC.",
    "Trusted: TLC, recording handlers/streams, the page comparison against CommandHelp/ApplicationHelp rendered directly. The application and its trees are fixed (generated trees are C03's subject); switches before or inside the command path only claim the quiet / verbosity / ANSI / interaction / '--' clauses; short-option groups (-qn), --verbose[=n], --ansi together with --no-ansi, handlers writing through io.section() are not covered.",
    "DESIGN.md#C09",
)
check(
    "C13",
    ["HelpPage", "HelpPageTrace"],
    "TLA+ model of application and command help pages on generated command trees (P: rendering succeeds, entries = every non-hidden enabled command / argument / option own and inherited under preferred and alternative name, nothing hidden or disabled, every line fits, 'help <path>' = '<path> --help'; A: exact layout incl. a textwrap model) checked by TLC; every page and request replayed; random applications decided by HelpPageTrace.tla",
    "TLC enumerates 944 + 192 (quick) / 21 162 (thorough) applications - small trees with default / anonymous / hidden / disabled commands whose commands carry 0-2 arguments and 0-2 options with every flag kind, descriptions absent / short / several lines, defaults of every type - and checks the page clauses on the model; 5 800 / 110 934 pages and 4 392 / 81 678 help requests (both forms) are rendered by the real classes at several terminal widths, ANSI and plain, and reproduce the model's page blank for blank; 150 / 2 500 random applications are decided by TLC.",
    "Trusted: TLC, the page parser of the driver (section headings -> labelled lines -> first token). Open known findings: arguments named like a registered style tag; 'help help' vs 'help --help'. Global arguments, custom value names, markup or braces in descriptions, East-Asian widths are outside.",
    "DESIGN.md#C13",
)
