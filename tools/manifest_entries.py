check(
    "C08",
    ["Tokenizer", "TokenizerTrace"],
    "TLA+ model of the tokenizer checked exhaustively by TLC (all strings <= N, all quoted token lists); every TLC behaviour replayed on TokenParser/StringArgs/ArgvArgs; recorded random calls validated by TokenizerTrace.tla",
    "TLC proves totality, termination (Progress), unquoted-split and quoting round trip on the scanner model for all strings up to length 5 (quick) / 7 (thorough) and all quoted lists within bounds; the real tokenizer is shown to follow the model on every one of those inputs (exact equality) and on seeded random larger inputs via trace validation, where every P-clause is evaluated by TLC on the observed result.",
    "Trusted: TLC/SANY, CommunityModules Json/IOUtils, the 40-line observe() projection. Whitespace limited to SP/TAB (exhaustive) and SP/TAB/LF/CR (traces); non-ASCII is one width-1 symbol; beyond the bounds the claim rests on the random traces only.",
    "DESIGN.md#C08",
)
