#!/usr/bin/env python3
"""Systematic first-order mutation of the code each property is anchored in.

tools/mutation_sweep.py gen                      -> .work/msweep/mutants.jsonl (all mutants of the anchored functions)
tools/mutation_sweep.py run [-j N] [-n K] [ids]  -> for K sampled mutants per property: repository suite first (mutants the
                                                    suite kills are skipped), then the property's quick check in a scratch
                                                    worktree (VERIF_REPO_SRC); results in .work/msweep/results_<id>.jsonl
tools/mutation_sweep.py report                   -> docs/mutation_sweep.md

Mutation sites are restricted to the functions named in the `anchors.mechanism[].where` / `anchors.state[].where` fields of
properties.jsonl (inside the anchored files).  Operators: comparison swap, and/or swap, condition negation, `not` removal,
integer constant +1, True/False swap, +/- swap, statement deletion (call / assignment -> pass, return X -> return None,
break/continue/raise -> pass).  Nothing is ever written to /repo: each worker owns a scratch worktree under /tmp.
A mutant that survives suite AND check is not necessarily a gap: it may be equivalent or lie outside the statement; the
report lists every such survivor for triage."""
import ast
import copy
import hashlib
import json
import os
import random
import re
import subprocess
import sys
import time

H = os.path.dirname(os.path.dirname(os.path.abspath(__file__)))
OUT = os.path.join(H, ".work", "msweep")
REPO = "/repo"


def anchors():
    res = {}
    for l in open(os.path.join(H, "properties.jsonl")):
        d = json.loads(l)
        a = d["anchors"]
        names = set()
        for m in a.get("mechanism", []) + a.get("state", []):
            for tok in re.findall(r"[A-Za-z_][A-Za-z0-9_\.]*", m["where"]):
                names.add(tok.split(".")[-1])
        res[d["id"]] = {"files": [f for f in a["files"] if f.endswith(".py")], "names": names}
    return res


SWAP = {ast.Eq: ast.NotEq, ast.NotEq: ast.Eq, ast.Lt: ast.LtE, ast.LtE: ast.Lt, ast.Gt: ast.GtE, ast.GtE: ast.Gt,
        ast.Is: ast.IsNot, ast.IsNot: ast.Is, ast.In: ast.NotIn, ast.NotIn: ast.In}


def sites(stmt):
    """yields (description, mutate(stmt_copy) -> None) for one statement (header only for compound statements)"""
    def header_nodes(s):
        if isinstance(s, (ast.If, ast.While)):
            return [s.test]
        if isinstance(s, ast.For):
            return [s.iter]
        if isinstance(s, (ast.With, ast.Try, ast.FunctionDef, ast.ClassDef)):
            return []
        return [s]

    idx = 0
    for root in header_nodes(stmt):
        for node in ast.walk(root):
            idx += 1
            key = idx
            if isinstance(node, ast.Compare):
                for k, op in enumerate(node.ops):
                    if type(op) in SWAP:
                        yield ("cmp %s->%s" % (type(op).__name__, SWAP[type(op)].__name__), ("cmp", key, k))
            elif isinstance(node, ast.BoolOp):
                yield ("boolop swap", ("boolop", key, 0))
            elif isinstance(node, ast.UnaryOp) and isinstance(node.op, ast.Not):
                yield ("drop not", ("dropnot", key, 0))
            elif isinstance(node, ast.Constant) and isinstance(node.value, bool):
                yield ("bool flip", ("const", key, 0))
            elif isinstance(node, ast.Constant) and isinstance(node.value, int) and abs(node.value) < 1000:
                yield ("int+1", ("const", key, 0))
            elif isinstance(node, ast.BinOp) and isinstance(node.op, (ast.Add, ast.Sub)):
                yield ("+/- swap", ("binop", key, 0))
    if isinstance(stmt, (ast.If, ast.While)):
        yield ("negate condition", ("negate", 0, 0))
    if isinstance(stmt, ast.Expr) and isinstance(stmt.value, ast.Call):
        yield ("delete call", ("delete", 0, 0))
    if isinstance(stmt, (ast.Assign, ast.AugAssign)):
        yield ("delete assignment", ("delete", 0, 0))
    if isinstance(stmt, ast.Return) and stmt.value is not None and not (isinstance(stmt.value, ast.Constant) and stmt.value.value is None):
        yield ("return None", ("retnone", 0, 0))
    if isinstance(stmt, (ast.Break, ast.Continue, ast.Raise)):
        yield ("delete " + type(stmt).__name__.lower(), ("delete", 0, 0))


def apply(stmt, what):
    kind, key, k = what
    s = copy.deepcopy(stmt)
    if kind == "negate":
        s.test = ast.UnaryOp(op=ast.Not(), operand=s.test)
        return s
    if kind == "delete":
        return ast.Pass()
    if kind == "retnone":
        s.value = ast.Constant(value=None)
        return s
    roots = [s.test] if isinstance(s, (ast.If, ast.While)) else [s.iter] if isinstance(s, ast.For) else [s]
    idx = 0
    for root in roots:
        for node in ast.walk(root):
            idx += 1
            if idx != key:
                continue
            if kind == "cmp":
                node.ops[k] = SWAP[type(node.ops[k])]()
            elif kind == "boolop":
                node.op = ast.Or() if isinstance(node.op, ast.And) else ast.And()
            elif kind == "dropnot":
                # replace in parent: emulate by double negation removal -> turn `not x` into `not not x` is equivalent to x
                node.operand = ast.UnaryOp(op=ast.Not(), operand=node.operand)
            elif kind == "const":
                node.value = (not node.value) if isinstance(node.value, bool) else node.value + 1
            elif kind == "binop":
                node.op = ast.Sub() if isinstance(node.op, ast.Add) else ast.Add()
            return s
    return None


def statements(fn):
    for node in ast.walk(fn):
        if isinstance(node, ast.stmt) and node is not fn and not isinstance(node, (ast.FunctionDef, ast.ClassDef)):
            if isinstance(node, ast.Expr) and isinstance(node.value, ast.Constant) and isinstance(node.value.value, str):
                continue  # docstring
            yield node


def gen():
    os.makedirs(OUT, exist_ok=True)
    A = anchors()
    out = open(os.path.join(OUT, "mutants.jsonl"), "w")
    total = 0
    seen = set()
    for pid, a in sorted(A.items()):
        n = 0
        for f in a["files"]:
            path = os.path.join(REPO, f)
            if not os.path.exists(path):
                continue
            src = open(path).read()
            lines = src.split("\n")
            tree = ast.parse(src)
            for fn in ast.walk(tree):
                if not isinstance(fn, ast.FunctionDef) or fn.name not in a["names"]:
                    continue
                for st in statements(fn):
                    for desc, what in sites(st):
                        new = apply(st, what)
                        if new is None:
                            continue
                        ast.fix_missing_locations(new)
                        try:
                            text = ast.unparse(new)
                        except Exception:
                            continue
                        ind = " " * st.col_offset
                        repl = [ind + t for t in text.split("\n")]
                        mutated = "\n".join(lines[: st.lineno - 1] + repl + lines[st.end_lineno:])
                        if mutated == src:
                            continue
                        try:
                            compile(mutated, f, "exec")
                        except SyntaxError:
                            continue
                        h = hashlib.sha1((f + mutated).encode()).hexdigest()[:12]
                        if (pid, h) in seen:
                            continue
                        seen.add((pid, h))
                        out.write(json.dumps({"id": h, "property": pid, "file": f, "function": fn.name, "line": st.lineno, "end": st.end_lineno,
                                              "op": desc, "old": "\n".join(lines[st.lineno - 1: st.end_lineno]), "new": "\n".join(repl)}) + "\n")
                        n += 1
        total += n
        print(pid, n)
    print("total", total)


def mutated_source(m):
    lines = open(os.path.join(REPO, m["file"])).read().split("\n")
    if "\n".join(lines[m["line"] - 1: m["end"]]) != m["old"]:
        raise RuntimeError("the source changed since `gen`: " + m["file"])
    return "\n".join(lines[: m["line"] - 1] + m["new"].split("\n") + lines[m["end"]:])


def work(args):
    m, k, tier = args
    W = "/tmp/msw_%d" % k
    if not os.path.isdir(W):
        subprocess.run(["git", "-C", REPO, "worktree", "add", "-q", "--detach", W, "HEAD"], check=True)
    path = os.path.join(W, m["file"])
    orig = open(os.path.join(REPO, m["file"])).read()
    res = dict(m)
    t0 = time.time()
    try:
        open(path, "w").write(mutated_source(m))
        try:
            t = subprocess.run("cd %s && PYTHONPATH=%s/src timeout 300 /venv/bin/python -m pytest -q -x -p no:cacheprovider "
                               "--deselect tests/io/output_stream/test_stream_output_stream.py::test_supports_utf8_with_encoding 2>&1 | tail -1" % (W, W),
                               shell=True, capture_output=True, text=True, timeout=400)
            suite = t.stdout.strip()
        except subprocess.TimeoutExpired:
            suite = "timeout"
        res["suite"] = suite
        if "passed" in suite and "failed" not in suite and "error" not in suite:
            env = dict(os.environ, VERIF_REPO_SRC=W + "/src")
            try:
                r = subprocess.run(["/verif/check", m["property"], "--tier", tier], capture_output=True, text=True, cwd=H, env=env, timeout=1500)
                res["exit"] = r.returncode
                cl = sorted(set(re.findall(r"clause=(\S+)", r.stdout)))
                res["clauses"] = cl[:8]
                if r.returncode == 2:
                    res["tail"] = (r.stdout + r.stderr)[-600:]
            except subprocess.TimeoutExpired:
                res["exit"] = "timeout"
        else:
            res["exit"] = "suite"
    finally:
        open(path, "w").write(orig)
    res["secs"] = round(time.time() - t0, 1)
    return res


def run(argv):
    from multiprocessing import Pool

    j, n, tier, ids = 4, 30, "quick", []
    it = iter(argv)
    for a in it:
        if a == "-j":
            j = int(next(it))
        elif a == "-n":
            n = int(next(it))
        else:
            ids.append(a)
    muts = [json.loads(l) for l in open(os.path.join(OUT, "mutants.jsonl"))]
    done = set()
    for f in os.listdir(OUT):
        if f.startswith("results_"):
            done |= {json.loads(l)["id"] + json.loads(l)["property"] for l in open(os.path.join(OUT, f))}
    rng = random.Random(20261005)
    jobs = []
    by = {}
    for m in muts:
        by.setdefault(m["property"], []).append(m)
    for pid in sorted(by):
        if ids and pid not in ids:
            continue
        pool = by[pid][:]
        rng.shuffle(pool)
        jobs += [m for m in pool[:n] if m["id"] + m["property"] not in done]
    rng.shuffle(jobs)
    print("jobs:", len(jobs))
    with Pool(j) as p:
        # each worker process keeps its own worktree: index by pid modulo is not stable, so hand out slots round-robin
        for i, res in enumerate(p.imap_unordered(work_slot, [(m, tier) for m in jobs])):
            with open(os.path.join(OUT, "results_%s.jsonl" % res["property"]), "a") as f:
                f.write(json.dumps(res) + "\n")
            print(i + 1, res["property"], res["id"], res["op"], res.get("exit"), res.get("clauses", "")[:3] if isinstance(res.get("clauses"), list) else "", flush=True)


def work_slot(a):
    m, tier = a
    return work((m, os.getpid(), tier))


def recheck_one(a):
    """a survivor of the first pass: the own check again (the tree may have changed), then the checks of every other property
    anchored in the same file"""
    m, props = a
    W = "/tmp/msw_%d" % os.getpid()
    if not os.path.isdir(W):
        subprocess.run(["git", "-C", REPO, "worktree", "add", "-q", "--detach", W, "HEAD"], check=True)
    path = os.path.join(W, m["file"])
    orig = open(os.path.join(REPO, m["file"])).read()
    res = {k: m[k] for k in ("id", "property", "file", "function", "line", "end", "op", "old", "new")}
    res["checks"] = {}
    try:
        open(path, "w").write(mutated_source(m))
        env = dict(os.environ, VERIF_REPO_SRC=W + "/src")
        for pid in props:
            try:
                r = subprocess.run(["/verif/check", pid, "--tier", "quick"], capture_output=True, text=True, cwd=H, env=env, timeout=1500)
                res["checks"][pid] = {"exit": r.returncode, "clauses": sorted(set(re.findall(r"clause=(\S+)", r.stdout)))[:8]}
                if r.returncode == 2:
                    res["checks"][pid]["tail"] = (r.stdout + r.stderr)[-500:]
            except subprocess.TimeoutExpired:
                res["checks"][pid] = {"exit": "timeout", "clauses": []}
            if res["checks"][pid]["exit"] == 1:
                break
    finally:
        open(path, "w").write(orig)
    return res


def recheck(argv):
    from multiprocessing import Pool

    j = int(argv[1]) if argv[:1] == ["-j"] else 4
    A = anchors()
    rows = []
    for f in sorted(os.listdir(OUT)):
        if f.startswith("results_"):
            rows += [json.loads(l) for l in open(os.path.join(OUT, f))]
    jobs = []
    tri = {}
    tp = os.path.join(H, "docs", "mutation_triage.json")
    if os.path.exists(tp) and "--all" not in argv:
        tri = json.load(open(tp))          # triaged survivors are not run again (use --all to do so)
    old = {}
    rp = os.path.join(OUT, "recheck.jsonl")
    if os.path.exists(rp):
        for l in open(rp):
            o = json.loads(l)
            old[(o["property"], o["id"])] = l
    seen = set()
    for r in rows:
        if r.get("exit") in (1, "suite") or r["id"] in tri or (r["property"], r["id"]) in seen:
            continue
        seen.add((r["property"], r["id"]))
        try:
            mutated_source(r)
        except RuntimeError:
            continue
        others = [p for p in sorted(A) if p != r["property"] and r["file"] in A[p]["files"]]
        jobs.append((r, [r["property"]] + others))
    print("recheck jobs:", len(jobs))
    out = open(os.path.join(OUT, "recheck.jsonl"), "w")
    redo = {(r["property"], r["id"]) for r, _p in jobs}
    for k, l in old.items():   # earlier second-pass results of mutants that are not run again are kept
        if k not in redo:
            out.write(l)
    with Pool(j) as p:
        for i, res in enumerate(p.imap_unordered(recheck_one, jobs)):
            out.write(json.dumps(res) + "\n")
            out.flush()
            print(i + 1, res["property"], res["id"], res["op"], {k: v["exit"] for k, v in res["checks"].items()}, flush=True)


def report():
    rc = {}
    rp = os.path.join(OUT, "recheck.jsonl")
    if os.path.exists(rp):
        for l in open(rp):
            r = json.loads(l)
            rc[(r["property"], r["id"])] = r["checks"]
    rows = []
    for f in sorted(os.listdir(OUT)):
        if f.startswith("results_"):
            rows += [json.loads(l) for l in open(os.path.join(OUT, f))]
    by = {}
    for r in rows:
        ch = rc.get((r["property"], r["id"]))
        if ch is not None:   # the second pass decides: own check again, then the checks of the other properties anchored in the file
            own = ch.get(r["property"], {}).get("exit")
            r["exit"] = own
            r["others"] = {k: v["exit"] for k, v in ch.items() if k != r["property"]}
        by.setdefault(r["property"], []).append(r)
    out = ["# Systematic mutation sweep of the anchored code (tools/mutation_sweep.py)", "",
           "First-order mutants of the functions named in each property's anchors; a sample per property; the repository suite first",
           "(a mutant it kills is of no interest here), then the property's quick check in a scratch worktree.", "",
           "| property | sampled | killed by the suite | survive the suite | check exits 1 | check exits 0 | exit 2 / timeout |", "|---|---|---|---|---|---|---|"]
    surv = []
    for pid in sorted(by):
        rs = by[pid]
        s = [r for r in rs if r.get("exit") != "suite"]
        d = [r for r in s if r.get("exit") == 1]
        u = [r for r in s if r.get("exit") == 0]
        x = [r for r in s if r.get("exit") not in (0, 1)]
        out.append("| %s | %d | %d | %d | %d | %d | %d |" % (pid, len(rs), len(rs) - len(s), len(s), len(d), len(u), len(x)))
        surv += u + x
    out += ["", "## Mutants that survive the suite and the check (for triage: equivalent, outside the statement, or a gap)", ""]
    tri = {}
    tp = os.path.join(H, "docs", "mutation_triage.json")
    if os.path.exists(tp):
        tri = json.load(open(tp))
    for r in sorted(surv, key=lambda r: (r["property"], r["file"], r["line"])):
        out.append("* **%s** `%s` %s:%d `%s` (%s) exit=%s%s - %s" % (r["property"], r["id"], r["file"].replace("src/clikit/", ""), r["line"], r["function"], r["op"], r.get("exit"),
                                                                 (", other checks: %s" % r["others"]) if r.get("others") else "", tri.get(r["id"], "not triaged")))
        out.append("  `%s` -> `%s`" % (r["old"].strip().replace("\n", " / ")[:110], r["new"].strip().replace("\n", " / ")[:110]))
    open(os.path.join(H, "docs", "mutation_sweep.md"), "w").write("\n".join(out) + "\n")
    print("\n".join(out[:30]))


if __name__ == "__main__":
    cmd = sys.argv[1] if len(sys.argv) > 1 else ""
    if cmd == "gen":
        gen()
    elif cmd == "run":
        run(sys.argv[2:])
    elif cmd == "recheck":
        recheck(sys.argv[2:])
    elif cmd == "report":
        report()
    else:
        sys.exit(__doc__)
