#!/usr/bin/env python3
"""Vacuity audit: runs model configurations with `-coverage 1` and lists actions that were never taken.
tools/coverage_audit.py <spec dir> <module> <cfg> [<module> <cfg> ...]"""
import re
import subprocess
import sys
import tempfile
import shutil

JAR = "/opt/veriftools/tla/tla2tools.jar:/opt/veriftools/tla/CommunityModules-deps.jar"
d = sys.argv[1]
args = sys.argv[2:]
pat = re.compile(r"^<(\w+) line (\d+), col \d+ to line \d+, col \d+ of module (\w+)[^>]*>: (\d+):(\d+)")
for mod, cfg in zip(args[0::2], args[1::2]):
    m = tempfile.mkdtemp(prefix="cov_")
    p = subprocess.run(["java", "-Xmx8g", "-DTLA-Library=/verif/specs/common", "-cp", JAR, "tlc2.TLC", "-noGenerateSpecTE", "-metadir", m,
                        "-deadlock", "-workers", "8", "-coverage", "1", "-config", cfg, mod], cwd=d, capture_output=True, text=True)
    shutil.rmtree(m, ignore_errors=True)
    acts = {}
    for line in p.stdout.splitlines():
        g = pat.match(line)
        if g:
            k = (g.group(3), g.group(1))
            a = acts.get(k, 0)
            acts[k] = max(a, int(g.group(5)))
    dead = sorted(k for k, v in acts.items() if v == 0)
    print("%s/%s: %d actions, never taken: %s" % (mod, cfg, len(acts), dead or "none"))
