#!/bin/sh
# Offline setup: parse every specification with SANY, run the engine self-test (binding demonstration).
set -e
cd "$(dirname "$0")"
export PYTHONHASHSEED=0 PYTHONDONTWRITEBYTECODE=1 PYTHONPATH="$(pwd):/repo/src"
/venv/bin/python -m harness.selftest
